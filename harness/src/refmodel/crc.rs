//! Independent SMBus PEC: bit-serial CRC-8, polynomial x^8+x^2+x+1 (0x07), initial value 0,
//! MSB first, no reflection, no final XOR. Shares no code or table with smbus-pec.

#[inline]
pub fn crc8_update(mut crc: u8, byte: u8) -> u8 {
    crc ^= byte;
    let mut i = 0;
    while i < 8 {
        crc = if crc & 0x80 != 0 { (crc << 1) ^ 0x07 } else { crc << 1 };
        i += 1;
    }
    crc
}

const fn make_table() -> [u8; 256] {
    // table derived from the bit-serial definition above (not from any crate)
    let mut t = [0u8; 256];
    let mut b = 0usize;
    while b < 256 {
        let mut crc = b as u8;
        let mut i = 0;
        while i < 8 {
            crc = if crc & 0x80 != 0 { (crc << 1) ^ 0x07 } else { crc << 1 };
            i += 1;
        }
        t[b] = crc;
        b += 1;
    }
    t
}

static TABLE: [u8; 256] = make_table();

#[inline]
pub fn crc8(data: &[u8]) -> u8 {
    let mut crc = 0u8;
    for &b in data {
        crc = TABLE[(crc ^ b) as usize];
    }
    crc
}

/// Oracle self-test. Err(reason) makes the run inconclusive.
pub fn self_test() -> Result<(), String> {
    // CRC-8/SMBUS check value
    if crc8(b"123456789") != 0xF4 {
        return Err(format!("crc8 check value {:#x} != 0xF4", crc8(b"123456789")));
    }
    // table == bit-serial
    let msg: Vec<u8> = (0..=255u8).chain((0..=255u8).rev()).collect();
    let mut c = 0u8;
    for &b in &msg {
        c = crc8_update(c, b);
    }
    if c != crc8(&msg) {
        return Err("table CRC disagrees with bit-serial CRC".into());
    }
    // CRC(msg || crc) == 0
    let mut m = msg.clone();
    m.push(c);
    if crc8(&m) != 0 {
        return Err("crc(msg||crc) != 0".into());
    }
    // every burst of <= 8 bits at every offset of a sample packet changes the remainder
    let sample: Vec<u8> = vec![0x46, 0x0f, 0x08, 0x69, 0x01, 0x23, 0x34, 0xc8, 0x00, 0x80, 0x01, 0x00, 0x56];
    let base = crc8(&sample);
    let nbits = sample.len() * 8;
    // the interpreter (Miri) build runs a thinned version of this self-test
    let (off_step, pat_step) = if cfg!(miri) { (13, 31) } else { (1, 1) };
    for off in (0..nbits).step_by(off_step) {
        for pat in (0..128u16).step_by(pat_step) {
            let mut x = sample.clone();
            let pattern = 0x80u16 | pat; // leading bit set, 8 bits wide
            let mut changed = false;
            for k in 0..8 {
                if pattern & (0x80 >> k) != 0 {
                    let bit = off + k;
                    if bit < nbits {
                        x[bit / 8] ^= 0x80 >> (bit % 8);
                        changed = true;
                    }
                }
            }
            if changed && crc8(&x) == base {
                return Err(format!("burst at bit {} pattern {:#x} not detected by reference CRC", off, pattern));
            }
        }
    }
    Ok(())
}

/// Bitwise CRC-32 (reflected), used only to *generate* plausible message-integrity trailers for
/// packets with the IC bit set - what an implementation with IC support might expect to see.
pub fn crc32_reflected(poly_reflected: u32, data: &[u8]) -> u32 {
    let mut crc = 0xFFFF_FFFFu32;
    for &b in data {
        crc ^= b as u32;
        for _ in 0..8 {
            crc = if crc & 1 != 0 { (crc >> 1) ^ poly_reflected } else { crc >> 1 };
        }
    }
    !crc
}
