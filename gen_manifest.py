#!/usr/bin/env python3
"""Regenerates MANIFEST.json from the table below (keeps it schema-valid at all times)."""
import json, os, subprocess, sys
HERE = os.path.dirname(os.path.abspath(__file__))
props = [json.loads(l) for l in open(os.path.join(HERE, "properties.jsonl"))]
built = subprocess.run([os.path.join(HERE, "harness/target/chk/mctpmon"), "list"], capture_output=True, text=True).stdout.split("\n")
built = {l.split("\t")[0] for l in built if l.strip()}

TECH = {
 "C01": "runtime monitor: encoder catalogue outputs fed to the real decoder on several contexts, oracle = literal payload offsets and pointer range; panic trap",
 "C02": "runtime monitor: corruption workload (all wrong PECs, all <=8-bit bursts, random damage) against decoder/processor with independent CRC-8 oracle, poisoned response buffer, EID accessors and twin-context comparison; offline trace re-check",
 "C03": "runtime monitor: independent bit-serial CRC-8 oracle over every encoder output (chk and rel builds)",
 "C04": "runtime monitor: literal SMBus framing oracle + length probe on prefixes + oversize refusal, all 128x128 address pairs (chk and rel builds)",
 "C05": "runtime monitor: literal transport-header/type-byte oracle over all 256 destination and own-address values",
 "C06": "runtime monitor: literal DSP0236 request layout table vs. encoder outputs in poisoned buffers",
 "C07": "runtime monitor: literal DSP0236 response layout table vs. encoder outputs, stored EID swept over 256 values",
 "C08": "runtime monitor: literal big-endian vendor header oracle; all 65536 PCI IDs, 2^32 IANA sweep (thorough), every format byte",
 "C09": "runtime monitor: differential against an independent reference decoder (accept/reject, payload range, truthful-error set) on 4 contexts",
 "C10": "panic trap (rustc bounds/overflow/unreachable instrumentation as the sanitizer) over the receive corpus; rel build and Miri in the thorough tier",
 "C11": "runtime monitor: process_packet vs decode_packet differential with poisoned response buffer",
 "C12": "runtime monitor: forged requests (all address pairs, all 32 instance IDs) and literal field checks on the generated response",
 "C13": "history monitor: sequential endpoint model compared after every step of random and short-exhaustive histories over interleaved contexts; offline trace re-check in Python",
 "C14": "history monitor: selector walks and random-order queries over random vendor configurations vs. literal layout; twin-context order independence; offline re-check",
 "C15": "history monitor: identity queries interleaved with other traffic vs. endpoint model and twin context; offline re-check",
 "C16": "runtime monitor: double execution into complementary poisons at several capacities (exact-capacity included), untouched-tail and determinism oracle, panic trap; rel build and Miri in thorough",
 "C17": "runtime monitor: all 2^24 three-byte prefixes with continuations on two contexts vs. the literal function",
 "C18": "runtime monitor: reference bit extraction vs. getters/setters/validators over all raw patterns (2^8/2^16 exhaustive, 2^32 exhaustive in thorough)",
 "C19": "runtime monitor: all 256 bytes x 3 conversions vs. literal DSP0236 tables (exhaustive)",
}
LEVEL_TEXT = {p["id"]: "Exploration by runtime monitoring: the real library is executed on generated, swept and hostile inputs while an independent oracle judges every execution; the property is reported as held only on what was observed (counts and classes in the evidence file). Sub-spaces that are small are enumerated completely and named in evidence.coverage.exhaustive_subspaces." for p in props}

checks, na = [], []
for p in props:
    i = p["id"]
    if i in built:
        checks.append({
            "property_id": i,
            "quick_cmd": f"./check {i} quick",
            "thorough_cmd": f"./check {i} thorough",
            "evidence_file": f"/verif/evidence/{i}.json",
            "replay_cmd_template": f"./check {i} replay {{path}}",
            "engine": "mctpmon",
            "level_claimed": {"category": "exploration", "text": LEVEL_TEXT[i], "design_ref": f"DESIGN.md section 3 ({i})"},
            "level_note": "Trusted base: the harness oracles (literal DSP0236/DSP0237 tables, bit-serial CRC-8, reference decoder, endpoint model), rustc's bounds/overflow instrumentation and panic=unwind; results hold for the executions produced (seeded by VERIF_SEED), not for unexplored inputs.",
            "technique": TECH[i],
        })
    else:
        na.append({"property_id": i, "reason": "monitor under construction in this session (runtime monitoring applies; see DESIGN.md section 3)"})
m = {
 "version": 1,
 "setup_cmd": "./setup.sh",
 "hooks": {
   "guard": "--cfg libmctp_verif",
   "enable": "none needed: every property is observable at the public API (DESIGN.md 2.1); the harness builds /repo as a path dependency with overflow-checks and debug-assertions on (profile chk) and off (profile rel)",
   "baseline_off_cmd": "cd /repo && cargo test --workspace --no-fail-fast --offline",
   "source_commits": [],
   "add_only": True,
 },
 "engines": [{"name": "mctpmon", "path": "/verif/harness", "serves_properties": sorted(built), "kind_free_text": "Rust harness: workload generators, panic trap, independent oracles, evidence writer; Python offline trace checker for the history properties"}],
 "checks": checks,
 "not_applicable": na,
 "notes": "All checks: exit 0 held / 1 VIOLATION / 2 inconclusive. Known findings in KNOWN_FINDINGS.txt are printed as KNOWN-FINDING lines. VERIF_SEED seeds every random choice.",
}
json.dump(m, open(os.path.join(HERE, "MANIFEST.json"), "w"), indent=1)
print(f"MANIFEST.json: {len(checks)} checks, {len(na)} not_applicable")
