//! Adapter between the library's public API and plain harness values. Library enums are used only
//! to *name* variants; every numeric comparison in the oracles uses the literals returned here.

use crate::trap::{trap, PanicSig};
use libmctp::base_packet::MessageType;
use libmctp::control_packet::CompletionCode;
use libmctp::errors::{ControlMessageError, DecodeError};
use libmctp::mctp_traits::SMBusMCTPRequestResponse;
use libmctp::smbus::MCTPSMBusContext;
use libmctp::vendor_packets::VendorIDFormat;

/// DSP0239 code of a library MessageType variant, by variant *name*.
pub fn mt_code(m: &MessageType) -> u8 {
    match m {
        MessageType::MCtpControl => 0x00,
        MessageType::SpdmOverMctp => 0x05,
        MessageType::SecuredMessages => 0x06,
        MessageType::VendorDefinedPCI => 0x7E,
        MessageType::VendorDefinedIANA => 0x7F,
        MessageType::Invalid => 0xFF,
        // a variant added to the library later: no DSP0239 code known to the harness
        #[allow(unreachable_patterns)]
        _ => 0xFD,
    }
}

pub fn cc_code(c: &CompletionCode) -> u8 {
    match c {
        CompletionCode::Success => 0,
        CompletionCode::Error => 1,
        CompletionCode::ErrorInvalidData => 2,
        CompletionCode::ErrorInvalidLength => 3,
        CompletionCode::ErrorNotReady => 4,
        CompletionCode::ErrorUnsupportedCmd => 5,
        #[allow(unreachable_patterns)]
        _ => 0xFD,
    }
}

/// Error kind, flattened.
#[derive(Clone, Copy, Debug, PartialEq, Eq, Hash, PartialOrd, Ord)]
pub enum EK {
    Unknown,
    CtlUnknown,
    InvalidLen,
    InvalidCtlHdr,
    Unsuccessful(u8),
    InvalidPec,
    /// an error variant the harness does not know (added to the library after the harness was written)
    Other,
}

impl EK {
    pub fn name(&self) -> String {
        match self {
            EK::Unknown => "Unknown".into(),
            EK::CtlUnknown => "ControlMessage(Unknown)".into(),
            EK::InvalidLen => "InvalidRequestDataLength".into(),
            EK::InvalidCtlHdr => "InvalidControlHeader".into(),
            EK::Unsuccessful(c) => format!("UnsuccessfulCompletionCode({})", c),
            EK::InvalidPec => "InvalidPEC".into(),
            EK::Other => "<unknown error variant>".into(),
        }
    }
}

pub fn flatten_err(e: &(MessageType, DecodeError)) -> (u8, EK) {
    let mt = mt_code(&e.0);
    let ek = match &e.1 {
        DecodeError::Unknown => EK::Unknown,
        DecodeError::ControlMessage(c) => match c {
            ControlMessageError::Unknown => EK::CtlUnknown,
            ControlMessageError::InvalidRequestDataLength => EK::InvalidLen,
            ControlMessageError::InvalidControlHeader => EK::InvalidCtlHdr,
            ControlMessageError::UnsuccessfulCompletionCode(c) => EK::Unsuccessful(cc_code(c)),
            ControlMessageError::InvalidPEC => EK::InvalidPec,
            #[allow(unreachable_patterns)]
            _ => EK::Other,
        },
        #[allow(unreachable_patterns)]
        _ => EK::Other,
    };
    (mt, ek)
}

/// Result of decode_packet, with the payload expressed as an offset range of the input.
#[derive(Clone, Debug, PartialEq, Eq)]
pub enum DecOut {
    /// `off` is payload.as_ptr() - input.as_ptr() (usize::MAX if the payload is not inside the input)
    Ok { ty: u8, off: usize, len: usize },
    Err { mt: u8, ek: EK },
    Panic(PanicSig),
}

impl DecOut {
    pub fn brief(&self) -> String {
        match self {
            DecOut::Ok { ty, off, len } => format!("Ok(type={:#04x}, payload=[{}..{}])", ty, off, off.wrapping_add(*len)),
            DecOut::Err { mt, ek } => format!("Err(type={:#04x}, {})", mt, ek.name()),
            DecOut::Panic(p) => format!("PANIC {}", p.long()),
        }
    }
    pub fn class(&self) -> String {
        match self {
            DecOut::Ok { ty, .. } => format!("ok:{:#04x}", ty),
            DecOut::Err { mt, ek } => {
                let k = match ek {
                    EK::Unsuccessful(_) => "Unsuccessful".to_string(),
                    e => e.name(),
                };
                format!("err:{:#04x}:{}", mt, k)
            }
            DecOut::Panic(p) => format!("panic:{}", p.short()),
        }
    }
    pub fn is_ok(&self) -> bool {
        matches!(self, DecOut::Ok { .. })
    }
}

fn payload_range(input: &[u8], payload: &[u8]) -> (usize, usize) {
    let base = input.as_ptr() as usize;
    let p = payload.as_ptr() as usize;
    let len = payload.len();
    if p >= base && p + len <= base + input.len() {
        (p - base, len)
    } else {
        (usize::MAX, len)
    }
}

thread_local! {
    static ALIGN_BUF: std::cell::RefCell<Vec<u8>> = const { std::cell::RefCell::new(Vec::new()) };
}

/// Run `f` on a copy of `x` placed so that its first byte has a chosen address modulo 8. The residue is
/// a function of the input (deterministic, so replay reproduces it). Buffers on a real bus are not
/// word aligned; an implementation that processes words at a time may silently depend on alignment.
/// Safe code only: the scratch Vec's base address is *measured* and the offset chosen accordingly.
pub fn with_alignment<R>(x: &[u8], f: impl FnOnce(&[u8]) -> R) -> R {
    let want = (crate::rng::hash_bytes(0xA11, &x[..x.len().min(16)]) as usize ^ x.len()) & 7;
    ALIGN_BUF.with(|b| {
        let mut b = b.borrow_mut();
        if b.len() < x.len() + 16 {
            b.resize(x.len() + 16, 0);
        }
        let base = b.as_ptr() as usize & 7;
        let off = (want + 8 - base) & 7;
        b[off..off + x.len()].copy_from_slice(x);
        f(&b[off..off + x.len()])
    })
}

pub fn decode(ctx: &MCTPSMBusContext, x: &[u8]) -> DecOut {
    with_alignment(x, |x| decode_raw(ctx, x))
}

fn decode_raw(ctx: &MCTPSMBusContext, x: &[u8]) -> DecOut {
    match trap(|| ctx.decode_packet(x)) {
        Err(p) => DecOut::Panic(p),
        Ok(Ok((mt, payload))) => {
            let (off, len) = payload_range(x, payload);
            DecOut::Ok { ty: mt_code(&mt), off, len }
        }
        Ok(Err(e)) => {
            let (mt, ek) = flatten_err(&e);
            DecOut::Err { mt, ek }
        }
    }
}

#[derive(Clone, Debug, PartialEq, Eq)]
pub enum ProcOut {
    Ok { ty: u8, off: usize, len: usize, resp: Option<usize> },
    Err { mt: u8, ek: EK },
    Panic(PanicSig),
}

impl ProcOut {
    pub fn brief(&self) -> String {
        match self {
            ProcOut::Ok { ty, off, len, resp } => {
                format!("Ok(type={:#04x}, payload=[{}..{}], resp={:?})", ty, off, off.wrapping_add(*len), resp)
            }
            ProcOut::Err { mt, ek } => format!("Err(type={:#04x}, {})", mt, ek.name()),
            ProcOut::Panic(p) => format!("PANIC {}", p.long()),
        }
    }
    pub fn class(&self) -> String {
        match self {
            ProcOut::Ok { ty, resp, .. } => format!("ok:{:#04x}:{}", ty, if resp.is_some() { "resp" } else { "noresp" }),
            ProcOut::Err { mt, ek } => {
                let k = match ek {
                    EK::Unsuccessful(_) => "Unsuccessful".to_string(),
                    e => e.name(),
                };
                format!("err:{:#04x}:{}", mt, k)
            }
            ProcOut::Panic(p) => format!("panic:{}", p.short()),
        }
    }
    pub fn is_ok(&self) -> bool {
        matches!(self, ProcOut::Ok { .. })
    }
    pub fn resp_len(&self) -> Option<usize> {
        match self {
            ProcOut::Ok { resp, .. } => *resp,
            _ => None,
        }
    }
}

pub fn process(ctx: &MCTPSMBusContext, x: &[u8], rb: &mut [u8]) -> ProcOut {
    with_alignment(x, |x| process_raw(ctx, x, rb))
}

fn process_raw(ctx: &MCTPSMBusContext, x: &[u8], rb: &mut [u8]) -> ProcOut {
    match trap(|| ctx.process_packet(x, rb)) {
        Err(p) => ProcOut::Panic(p),
        Ok(Ok(((mt, payload), resp))) => {
            let (off, len) = payload_range(x, payload);
            ProcOut::Ok { ty: mt_code(&mt), off, len, resp }
        }
        Ok(Err(e)) => {
            let (mt, ek) = flatten_err(&e);
            ProcOut::Err { mt, ek }
        }
    }
}

#[derive(Clone, Debug, PartialEq, Eq)]
pub enum LenOut {
    Ok(usize),
    Err { mt: u8, ek: EK },
    Panic(PanicSig),
}

impl LenOut {
    pub fn brief(&self) -> String {
        match self {
            LenOut::Ok(n) => format!("Ok({})", n),
            LenOut::Err { mt, ek } => format!("Err(type={:#04x}, {})", mt, ek.name()),
            LenOut::Panic(p) => format!("PANIC {}", p.long()),
        }
    }
}

pub fn get_length(ctx: &MCTPSMBusContext, x: &[u8]) -> LenOut {
    with_alignment(x, |x| get_length_raw(ctx, x))
}

fn get_length_raw(ctx: &MCTPSMBusContext, x: &[u8]) -> LenOut {
    match trap(|| ctx.get_length(x)) {
        Err(p) => LenOut::Panic(p),
        Ok(Ok(n)) => LenOut::Ok(n),
        Ok(Err(e)) => {
            let (mt, ek) = flatten_err(&e);
            LenOut::Err { mt, ek }
        }
    }
}

/// Context configuration as plain data.
#[derive(Clone, Debug, PartialEq, Eq)]
pub struct CtxCfg {
    pub addr: u8,
    pub types: Vec<u8>,
    /// (format, data, numeric_value)
    pub vendors: Vec<(u8, u32, u16)>,
}

impl CtxCfg {
    pub fn simple(addr: u8) -> Self {
        CtxCfg { addr, types: vec![0x7E], vendors: vec![(0, 0x1414, 4)] }
    }
    pub fn vendor_vec(&self) -> Vec<VendorIDFormat> {
        self.vendors.iter().map(|&(format, data, numeric_value)| VendorIDFormat { format, data, numeric_value }).collect()
    }
    pub fn describe(&self) -> String {
        let v: Vec<String> = self.vendors.iter().map(|(f, d, n)| format!("{}:{:x}:{:x}", f, d, n)).collect();
        format!("addr={:#04x} types={} vendors=[{}]", self.addr, crate::json::hex(&self.types), v.join(","))
    }
    /// compact encoding used in replay cases
    pub fn encode(&self) -> String {
        let v: Vec<String> = self.vendors.iter().map(|(f, d, n)| format!("{}.{:x}.{:x}", f, d, n)).collect();
        format!("{:02x}/{}/{}", self.addr, crate::json::hex(&self.types), v.join("+"))
    }
    pub fn decode(s: &str) -> Option<Self> {
        let mut it = s.split('/');
        let addr = u8::from_str_radix(it.next()?, 16).ok()?;
        let types = crate::json::unhex(it.next()?)?;
        let vs = it.next()?;
        let mut vendors = Vec::new();
        if !vs.is_empty() {
            for e in vs.split('+') {
                let mut f = e.split('.');
                let fmt: u8 = f.next()?.parse().ok()?;
                let d = u32::from_str_radix(f.next()?, 16).ok()?;
                let n = u16::from_str_radix(f.next()?, 16).ok()?;
                vendors.push((fmt, d, n));
            }
        }
        Some(CtxCfg { addr, types, vendors })
    }
    /// Like `random`, but one time in `empty_one_in` the vendor-set list is empty (an endpoint
    /// without vendor-defined support - an empty slice is a legal constructor argument).
    pub fn random_maybe_empty(rng: &mut crate::rng::Rng, addr7: bool, empty_one_in: u64) -> Self {
        let mut c = Self::random(rng, addr7);
        if rng.chance(1, empty_one_in) {
            c.vendors.clear();
        }
        c
    }
    /// Random *valid* configuration (1-16 vendor sets of format 0/1, <= 30 types).
    pub fn random(rng: &mut crate::rng::Rng, addr7: bool) -> Self {
        let addr = if addr7 { rng.byte() & 0x7F } else { rng.byte() };
        // boundary-biased: the extreme legal type counts are as likely as everything between them
        let nt = if rng.chance(1, 3) { [0usize, 1, 29, 30][rng.below(4) as usize] } else { rng.below(31) as usize };
        let types = rng.bytes(nt);
        let nv = 1 + rng.below(16) as usize;
        let mut vendors = Vec::new();
        for _ in 0..nv {
            vendors.push(((rng.below(2)) as u8, rng.next() as u32, rng.next() as u16));
        }
        CtxCfg { addr, types, vendors }
    }
}

/// Run `f` with a fresh context built from `cfg`.
pub fn with_ctx<R>(cfg: &CtxCfg, f: impl FnOnce(&mut MCTPSMBusContext) -> R) -> R {
    let vendors = cfg.vendor_vec();
    let mut ctx = MCTPSMBusContext::new(cfg.addr, &cfg.types, &vendors);
    f(&mut ctx)
}

pub fn eids(ctx: &MCTPSMBusContext) -> (u8, u8) {
    (ctx.get_request().get_eid(), ctx.get_response().get_eid())
}
