//! C16 — encoders write exactly the reported bytes and refuse documented-invalid input.

use super::*;
use crate::catalog::*;
use crate::encwl::*;
use crate::json::{hex, J};
use crate::rng::{hash_bytes, Rng};

pub fn mon() -> Mon {
    Mon {
        id: "C16",
        title: "Encoders write exactly the reported bytes and refuse documented-invalid input",
        run,
        finish,
        replay,
        rule: "Every catalogue call is executed three times: into a generous buffer filled with a seeded poison, then into a buffer of exactly the reported length filled with the bitwise complement of that poison, then at length+1 and length+k, at landmark capacities (255-261, 511-513, 1024, 4096 for one call in eight, 65535-65537 for one in sixty-four), then three times into a buffer that already holds the previous output (intact, last byte damaged, one byte damaged: a retry). Oracle: outcome class from the reference (Ok for every argument that fits the frame; Err for EID 0x00/0xFF, >= 8 routing entries, > 30 message types, vendor format >= 2), same length and same bytes in all runs (an unwritten byte below len differs between complementary poisons), every byte at index >= len equal to its poison, whole buffer equal to its poison on Err, and no panic. Boundary arguments (EID 0/1/0xFE/0xFF, 6-9 routing entries, 29-33 types, formats 0/1/2/255, vendor field 0-7 bytes, bodies up to and across the SMBus limit) are swept. Non-trivial = a call judged in all runs; distinct = distinct (form, arguments) hashes.",
        assumptions: &[
            "argument shapes as documented: 16-byte UUIDs, vendor ID fields of at most 7 bytes",
            "messages whose frame would need a byte count above 255 are judged only for 'no panic' and 'tail untouched' here; their refusal is C04's",
            "chk build traps arithmetic overflow; the rel build and (thorough) Miri repeat a reduced workload",
        ],
        children,
    }
}

fn children(t: Tier) -> Vec<Child> {
    let mut v = vec![Child { build: "rel", part: "rel", scale: 1.0 }];
    if t == Tier::Thorough {
        v.push(Child { build: "miri", part: "miri", scale: 0.001 });
    }
    v
}

fn plan(cfg: &RunCfg) -> EncPlan {
    let mut p = EncPlan::new(&ALL_FORMS);
    p.len_max = 262;
    p.len_reps = cfg.pick(4, 30) as u32;
    p.extra_lens = vec![300, 508, 512, 516, 600];
    p.max_body = 255;
    p.random_per_form = cfg.pick(20_000, 1_200_000);
    p.param_sweep_reps = cfg.pick(2, 40) as u32;
    p.addr_sweep_reps = cfg.pick(1, 10) as u32;
    if cfg.part == "rel" {
        p.random_per_form = cfg.pick(1000, 50_000);
        p.param_sweep_reps = 1;
    }
    if cfg.is_small() {
        // Miri: a few hundred calls in total
        p.len_max = 0;
        p.param_sweep_reps = 0;
        p.addr_sweep_reps = 0;
        p.random_per_form = 4;
    }
    p
}

fn len_class(exp: &Exp) -> &'static str {
    match exp.outcome {
        Outcome::TooBig => "oversize",
        _ => match exp.total_len() {
            256..=259 => "n256-259",
            _ => "n<=255",
        },
    }
}

struct Run {
    res: Result<Result<usize, ()>, crate::trap::PanicSig>,
    buf: Vec<u8>,
    poison: Vec<u8>,
}

fn run_once(c: &Call, cap: usize, poison_seed: u64, complement: bool) -> Run {
    let mut r = Rng::new(poison_seed);
    let mut poison = r.bytes(cap);
    if complement {
        for b in poison.iter_mut() {
            *b = !*b;
        }
    }
    // the buffer's address residue modulo 8 varies with the call and the capacity
    let want = (crate::rng::hash_bytes(poison_seed, &c.blob) as usize ^ cap ^ (c.dest as usize) ^ ((c.own as usize) << 1)) & 7;
    let (res, buf) = invoke_aligned(c, &poison, want);
    Run { res, buf, poison }
}

fn brief(r: &Run) -> String {
    match &r.res {
        Ok(Ok(n)) => format!("Ok({}) cap={} bytes={}", n, r.buf.len(), hex(&r.buf[..(*n).min(r.buf.len()).min(48)])),
        Ok(Err(())) => format!("Err(()) cap={}", r.buf.len()),
        Err(p) => format!("PANIC cap={} {}", r.buf.len(), p.long()),
    }
}

pub fn check(c: &Call, extra: usize, pseed: u64, rep: &mut Report) {
    let exp = expected(c);
    let form = c.form.name();
    let lc = len_class(&exp);
    rep.eval();
    let case = || format!("{}|extra={}|ps={:x}", c.encode(), extra, pseed);
    let big = exp.total_len().max(64) + 64 + extra;
    let a = run_once(c, big, pseed, false);
    rep.class(&format!("{}:{}", form, match &a.res {
        Ok(Ok(_)) => "ok",
        Ok(Err(())) => "err",
        Err(_) => "panic",
    }));
    // panic: never acceptable
    if let Err(p) = &a.res {
        rep.violation(&format!("{}:{}:panic:{}", form, lc, p.kind), || format!("encoder panicked ({} bytes expected): {}", exp.total_len(), brief(&a)), case);
        return;
    }
    match (&exp.outcome, &a.res) {
        (Outcome::DocumentedInvalid(why), Ok(Ok(_))) => {
            rep.violation(&format!("{}:documented-invalid-accepted", form), || format!("{} must be refused but: {}", why, brief(&a)), case);
            return;
        }
        (Outcome::DocumentedInvalid(why), Ok(Err(()))) => {
            rep.class(&format!("refused:{}", why));
            rep.nontrivial(hash_bytes(0x1600, case().as_bytes()));
            if a.buf != a.poison {
                let i = a.buf.iter().zip(&a.poison).position(|(x, y)| x != y).unwrap();
                rep.violation(&format!("{}:err-but-buffer-touched", form), || format!("{} refused with Err but buffer byte {} was changed", why, i), case);
            }
            return;
        }
        (Outcome::Ok, Ok(Err(()))) if exp.may_refuse.is_some() => {
            rep.class(&format!("unjudged:refused:{}", exp.may_refuse.unwrap()));
            return;
        }
        (Outcome::Ok, Ok(Err(()))) => {
            rep.violation(&format!("{}:{}:valid-input-refused", form, lc), || format!("arguments fit the frame ({} bytes) but the encoder returned Err", exp.total_len()), case);
            return;
        }
        (Outcome::TooBig, Ok(Err(()))) => {
            rep.class("oversize:refused");
            return;
        }
        _ => {}
    }
    let n = match &a.res {
        Ok(Ok(n)) => *n,
        _ => unreachable!(),
    };
    if n > a.buf.len() {
        rep.violation(&format!("{}:reported-length-exceeds-buffer", form), || brief(&a), case);
        return;
    }
    if a.buf[n..] != a.poison[n..] {
        let i = n + a.buf[n..].iter().zip(&a.poison[n..]).position(|(x, y)| x != y).unwrap();
        rep.violation(&format!("{}:writes-beyond-len", form), || format!("byte {} (>= reported length {}) was changed; {}", i, n, brief(&a)), case);
    }
    rep.nontrivial(hash_bytes(0x16, case().as_bytes()));
    // exact capacity, complementary poison
    // ... then one more byte, then some more, then (one call in eight) a landmark capacity where a length
    // kept in a narrower integer would wrap: 255-261, 511-513, 1024, 4096, and (one in sixty-four) 65535-65537
    let mut caps = vec![n, n + 1];
    if extra % 3 == 0 {
        caps.push(n + 1 + (extra % 37));
    }
    if extra % 8 == 1 {
        const LANDMARKS: [usize; 12] = [255, 256, 257, 258, 259, 260, 261, 511, 512, 513, 1024, 4096];
        let l = LANDMARKS[(extra / 8) % LANDMARKS.len()];
        if l >= n {
            caps.push(l);
            rep.class("capacity:landmark-255..4096");
        }
    }
    if extra % 64 == 2 {
        caps.push(65535 + (extra / 64) % 3);
        rep.class("capacity:landmark-65535..65537");
    }
    for (k, &cap) in caps.iter().enumerate() {
        let b = run_once(c, cap, pseed, k != 1);
        rep.eval();
        match &b.res {
            Err(p) => {
                rep.violation(&format!("{}:{}:panic-at-capacity:{}", form, lc, p.kind), || format!("first run {}; with capacity {}: {}", brief(&a), cap, brief(&b)), case);
                return;
            }
            Ok(Err(())) => {
                rep.violation(&format!("{}:result-depends-on-capacity", form), || format!("first run {}; with capacity {}: Err", brief(&a), cap), case);
                return;
            }
            Ok(Ok(m)) => {
                if *m != n || b.buf[..n.min(b.buf.len())] != a.buf[..n.min(b.buf.len())] {
                    let i = (0..n.min(*m).min(b.buf.len())).find(|&i| a.buf[i] != b.buf[i]);
                    rep.violation(
                        &format!("{}:depends-on-buffer-contents", form),
                        || format!("two runs into different prior contents/capacities disagree (first differing byte {:?}): {} vs {}", i, brief(&a), brief(&b)),
                        case,
                    );
                    return;
                }
                if b.buf[n..] != b.poison[n..] {
                    rep.violation(&format!("{}:writes-beyond-len", form), || format!("capacity {}: a byte at index >= {} was changed", cap, n), case);
                    return;
                }
            }
        }
    }
    // a retry: the same call into a buffer that already holds the previous output - intact, with the
    // PEC slot damaged, with one body byte damaged. The result must again be exactly the packet.
    for variant in 0..3u8 {
        let mut init = a.buf[..n + (extra % 5)].to_vec();
        match variant {
            1 => init[n - 1] ^= 0x5A,
            2 => init[(pseed as usize) % n] ^= 0x01,
            _ => {}
        }
        let (res, out) = invoke_aligned(c, &init, (pseed as usize >> 3) & 7);
        rep.eval();
        match res {
            Ok(Ok(m)) if m == n && out[..n] == a.buf[..n] && out[n..] == init[n..] => {}
            other => {
                let what = match &other {
                    Ok(Ok(m)) if *m == n && out[..n] != a.buf[..n] => "re-encoding over a previous output leaves stale bytes".to_string(),
                    Ok(Ok(m)) if *m == n => "re-encoding over a previous output touches the tail".to_string(),
                    o => format!("re-encoding over a previous output returns {:?}", o.as_ref().map_err(|p| p.long())),
                };
                rep.violation(
                    &format!("{}:depends-on-buffer-contents:retry", form),
                    || format!("{} (variant {}: 0 = intact copy, 1 = last byte damaged, 2 = one byte damaged); first run {}; now {}", what, variant, brief(&a), hex(&out[..n.min(out.len()).min(48)])),
                    case,
                );
                return;
            }
        }
    }
    if rep.want_sample() {
        rep.sample(|| J::obj(vec![("call", J::s(c.describe())), ("first_run", J::s(brief(&a))), ("capacities", J::s(format!("{:?}", caps)))]));
    }
}

fn run(cfg: &RunCfg) -> Report {
    let mut rep = Report::new();
    let p = plan(cfg);
    for_each_call(cfg, "c16", &p, &mut |c, rng| {
        let extra = rng.below(300) as usize;
        let ps = rng.next();
        check(c, extra, ps, &mut rep)
    });
    // boundary arguments
    let mut rng = cfg.rng("c16-boundary");
    if cfg.shard == 0 {
        let reps = if cfg.is_small() { 1 } else { cfg.pick(20, 500) };
        for _ in 0..reps {
            for eid in [0x00u8, 0x01, 0xFE, 0xFF] {
                for op in 0..4u8 {
                    let mut c = Call::random(Form::SetEid, &mut rng, true, 0);
                    c.p = [op, eid, 0, 0];
                    check(&c, rng.below(300) as usize, rng.next(), &mut rep);
                }
            }
            for n in [6usize, 7, 8, 9, 16] {
                for via in 0..2u8 {
                    let mut c = Call::random(Form::RoutingUpdate, &mut rng, true, 0);
                    c.p[0] = via;
                    c.blob = crate::catalog::routing_entries(&mut rng, n);
                    check(&c, rng.below(300) as usize, rng.next(), &mut rep);
                }
            }
            for n in [0usize, 1, 29, 30, 31, 32, 33, 64] {
                let mut c = Call::random(Form::RGetTypes, &mut rng, true, 0);
                c.blob = rng.bytes(n);
                check(&c, rng.below(300) as usize, rng.next(), &mut rep);
            }
            for f in [0u8, 1, 2, 3, 0x7F, 0x80, 0xFE, 0xFF] {
                let mut c = Call::random(Form::VendorDefined, &mut rng, true, 20);
                c.p[0] = f;
                check(&c, rng.below(300) as usize, rng.next(), &mut rep);
            }
            for n in 0..=7usize {
                let mut c = Call::random(Form::RGetVendor, &mut rng, true, 0);
                c.blob = rng.bytes(n);
                check(&c, rng.below(300) as usize, rng.next(), &mut rep);
            }
        }
    }
    rep
}

fn finish(rep: &mut Report, cfg: &RunCfg) {
    if cfg.is_small() {
        return;
    }
    floor(rep, cfg, 50_000);
    for why in ["reserved EID", "8 or more routing entries", "more than 30 message types", "vendor ID format not PCI/IANA"] {
        let seen = rep.classes.contains_key(&format!("refused:{}", why)) || rep.findings.keys().any(|k| k.contains("documented-invalid"));
        if !seen {
            rep.inconclusive.push(format!("documented-invalid class '{}' never exercised", why));
        }
    }
}

fn replay(case: &str, rep: &mut Report) -> Result<(), String> {
    let mut it = case.split('|');
    let c = Call::decode(it.next().ok_or("empty")?).ok_or("cannot parse call")?;
    let mut extra = 0usize;
    let mut ps = 1u64;
    for kv in it {
        match kv.split_once('=') {
            Some(("extra", v)) => extra = v.parse().map_err(|_| "bad extra")?,
            Some(("ps", v)) => ps = u64::from_str_radix(v, 16).map_err(|_| "bad ps")?,
            _ => {}
        }
    }
    check(&c, extra, ps, rep);
    Ok(())
}
