#!/usr/bin/env python3
"""Regenerates the tables of DESIGN.md section 12 from selftest_results.json and
selftest_seeded_results.json (between the BEGIN/END GENERATED markers)."""
import json, os, re
HERE = os.path.dirname(os.path.abspath(__file__))
seeded = json.load(open(os.path.join(HERE, "selftest_seeded_results.json")))
muts = json.load(open(os.path.join(HERE, "selftest_results.json")))
out = []
out.append("#### 12.1 Independent seeded changes (`seeded/`, written by sub-agents; `./selftest --seeded --all`)\n")
out.append("| seed | breaks | what it needs to manifest | targeted check (quick) | first key reported | also flagged by |")
out.append("|---|---|---|---|---|---|")
for r in seeded:
    meta = json.load(open(os.path.join(HERE, "seeded", r["id"], "meta.json")))
    key = ""
    for c in r["caught_by"]:
        if c["property"] == r["property"] and c["keys"]:
            key = c["keys"][0].split(" observed=")[0].replace("key=", "")
    also = ", ".join(c["property"] for c in r["caught_by"] if c["property"] != r["property"]) or "—"
    out.append("| %s | %s | %s | **%s** %s | `%s` | %s |" % (r["id"], meta.get("breaks", "").replace("|", "/"), meta.get("needs_to_manifest", "").replace("|", "/"), r["property"], r["status"], key[:90], also))
n = len(seeded); c = sum(r["status"] == "caught" for r in seeded)
out.append("\n%d seeded changes, all confirmed by me before use; %d caught by the quick tier of the targeted check.\n" % (n, c))
out.append("#### 12.2 Own mutants (`mutants/mutants.json`; `./selftest --all`)\n")
out.append("| mutant | property | edit | result | also flagged by |")
out.append("|---|---|---|---|---|")
for r in muts:
    also = ", ".join(c["property"] for c in r["caught_by"] if c["property"] != r["property"]) or "—"
    out.append("| %s | %s | %s | %s | %s |" % (r["id"], r["property"], r["what"].replace("|", "/"), r["status"], also))
from collections import Counter
cnt = Counter(r["status"] for r in muts)
out.append("\n%d mutants: %d killed by the existing tests (unusable), %d caught by the targeted check, %d missed, %d equivalent probes on which every check stayed silent.\n" % (
    len(muts), cnt["killed-by-existing-tests"], cnt["caught"], cnt["MISSED"], cnt["silent-on-equivalent"]))
text = "\n".join(out)
p = os.path.join(HERE, "DESIGN.md")
s = open(p).read()
b, e = "<!-- BEGIN GENERATED VALIDATION -->", "<!-- END GENERATED VALIDATION -->"
if b in s:
    s = s[:s.index(b) + len(b)] + "\n" + text + "\n" + s[s.index(e):]
    open(p, "w").write(s)
    print("DESIGN.md section 12 tables regenerated")
else:
    print("markers not found")
