//! Configuration-boundary sweep shared by the total-function monitors (C10, C11).
//!
//! The endpoint configuration (number of message types, number and format of vendor sets, UUID
//! installed or not) is an *input* of `process_packet` just as much as the packet is: a response
//! encoder that refuses a legal configuration at its boundary (30 types, 0 types, the last vendor
//! set, ...) turns into a panic in the processor. The random configurations used elsewhere hit a
//! given boundary in only a few percent of shards, so this sweep enumerates them: every type count
//! 0..=30 crossed with vendor-set counts {0, 1, 2, 3, 8, 16}, and on each context one well-formed
//! request per control command 0x00..=0x16 (the vendor query once per configured selector and once
//! past the end).
use crate::libapi::{with_ctx, CtxCfg};
use crate::refmodel::forge;
use crate::rng::Rng;
use libmctp::smbus::MCTPSMBusContext;

fn req_data_len(cmd: u8) -> usize {
    match cmd {
        0x01 => 2,
        0x04 | 0x06 | 0x07 => 1,
        0x08 => 3,
        _ => 0,
    }
}

pub fn boundary_cfgs(rng: &mut Rng, full: bool) -> Vec<CtxCfg> {
    let nts: Vec<usize> = if full { (0..=30).collect() } else { vec![0, 1, 2, 15, 29, 30] };
    let nvs: &[usize] = if full { &[0, 1, 2, 3, 8, 16] } else { &[0, 1, 3] };
    let mut out = Vec::new();
    for &nt in &nts {
        for &nv in nvs {
            let types = match rng.below(3) {
                0 => rng.bytes(nt),
                1 => rng.pattern_bytes(nt),
                _ => (0..nt).map(|i| i as u8).collect(),
            };
            let vendors = (0..nv).map(|_| (rng.below(2) as u8, rng.next() as u32, rng.next() as u16)).collect();
            out.push(CtxCfg { addr: rng.byte(), types, vendors });
        }
    }
    out
}

/// Calls `f(ctx, cfg, request)` for every request of the sweep; each configuration gets a fresh
/// context (with a UUID installed on every second one).
pub fn for_each(rng: &mut Rng, full: bool, f: &mut dyn FnMut(&MCTPSMBusContext, &CtxCfg, &[u8])) {
    let cfgs = boundary_cfgs(rng, full);
    for (k, c) in cfgs.iter().enumerate() {
        with_ctx(c, |ctx| {
            if k % 2 == 1 {
                let mut u = [0u8; 16];
                rng.fill(&mut u);
                ctx.set_uuid(&u);
            }
            let own = c.addr & 0x7F;
            for cmd in 0x00..=0x16u8 {
                let sels: Vec<u8> = if cmd == 0x06 { (0..=c.vendors.len() as u8).chain([0xFE, 0xFF]).collect() } else { vec![0] };
                for sel in sels {
                    let mut data = rng.bytes(req_data_len(cmd));
                    match cmd {
                        0x01 => {
                            data[0] = rng.below(4) as u8;
                            data[1] = 1 + rng.below(0xFE) as u8;
                        }
                        0x04 => data[0] = [0xFF, 0x00, 0x01, 0x05, 0x7E, 0x7F][rng.below(6) as usize],
                        0x06 => data[0] = sel,
                        _ => {}
                    }
                    let x = forge::ctrl_request(own, rng.byte() & 0x7F, rng.byte() & 0x1F, false, cmd, &data);
                    f(ctx, c, &x);
                }
            }
        });
    }
}
