//! Shared encoder-side workload driver: sweeps (every value of every small parameter, every
//! destination / own address byte, address pairs, body lengths, list sizes) plus seeded random
//! products, split deterministically over shards.

use crate::catalog::*;
use crate::rng::{mix, Rng};
use crate::RunCfg;

#[derive(Clone, Debug)]
pub struct EncPlan {
    pub forms: Vec<Form>,
    /// restrict own/dest to 7-bit (C03/C04/C16/C01) or use the full byte (C05)
    pub addr7: bool,
    /// repeats of the per-parameter sweeps (each repeat draws fresh random co-arguments)
    pub param_sweep_reps: u32,
    /// sweep dest and own through all 256 (or 128) values, this many repeats
    pub addr_sweep_reps: u32,
    /// forms on which all address pairs are enumerated (128x128 when addr7, 256x256 otherwise)
    pub pair_forms: Vec<Form>,
    /// body lengths 0..=len_max for the variable-body forms (0 = skip); reps per length
    pub len_max: usize,
    pub len_reps: u32,
    /// extra discrete oversize lengths
    pub extra_lens: Vec<usize>,
    /// random calls per form
    pub random_per_form: u64,
    /// upper bound for random body sizes
    pub max_body: usize,
}

impl EncPlan {
    pub fn new(forms: &[Form]) -> Self {
        EncPlan {
            forms: forms.to_vec(),
            addr7: true,
            param_sweep_reps: 1,
            addr_sweep_reps: 1,
            pair_forms: Vec::new(),
            len_max: 0,
            len_reps: 1,
            extra_lens: Vec::new(),
            random_per_form: 1000,
            max_body: 249,
        }
    }
}

/// Enumerate the plan; `f(call, rng)` is invoked for the items of this shard only.
pub fn for_each_call(cfg: &RunCfg, label: &str, plan: &EncPlan, f: &mut dyn FnMut(&Call, &mut Rng)) {
    let mut rng = cfg.rng(label);
    let mut counter: u64 = 0;
    let ns = cfg.nshards as u64;
    let sh = cfg.shard as u64;
    let addr_n: u16 = if plan.addr7 { 128 } else { 256 };
    macro_rules! item {
        ($make:expr) => {{
            if counter % ns == sh {
                let c: Call = $make;
                f(&c, &mut rng);
            }
            counter += 1;
        }};
    }
    for &form in &plan.forms {
        // A: parameter sweeps
        let dom = form.domains();
        for _ in 0..plan.param_sweep_reps {
            for i in 0..4 {
                for v in 0..dom[i] {
                    item!({
                        let mut c = Call::random(form, &mut rng, plan.addr7, plan.max_body.min(64));
                        c.p[i] = v as u8;
                        c
                    });
                }
            }
        }
        // B: destination / own address sweeps, stored-EID sweep
        for _ in 0..plan.addr_sweep_reps {
            for v in 0..addr_n {
                item!({
                    let mut c = Call::random(form, &mut rng, plan.addr7, plan.max_body.min(64));
                    c.dest = v as u8;
                    c
                });
                item!({
                    let mut c = Call::random(form, &mut rng, plan.addr7, plan.max_body.min(64));
                    c.own = v as u8;
                    c
                });
            }
            if form.is_response() {
                for v in 0..256u16 {
                    item!({
                        let mut c = Call::random(form, &mut rng, plan.addr7, 32);
                        c.eid_this = v as u8;
                        c
                    });
                }
            }
        }
        // E: list-size sweeps
        match form {
            Form::RoutingUpdate => {
                // 0-9 entries, then counts at which a length kept in a narrower integer wraps
                // (4 bytes per entry: 64 entries = 256 bytes, 16384 entries = 65536 bytes)
                for n in (0..=9usize).chain([15, 16, 17, 31, 32, 33, 63, 64, 65, 71, 72, 127, 128, 129, 255, 256, 257, 16384, 16385, 16391]) {
                    for via in 0..2u8 {
                        for _ in 0..(if n > 9 { 1 } else { 4 }) {
                            item!({
                                let mut c = Call::random(form, &mut rng, plan.addr7, 32);
                                c.p[0] = via;
                                c.blob = crate::catalog::routing_entries(&mut rng, n);
                                c
                            });
                        }
                    }
                }
            }
            Form::RGetTypes => {
                // 0-33 types, then list lengths at which a count kept in a u8 / u16 wraps back into 0..=30
                for n in (0..=33usize).chain([63, 64, 65, 127, 128, 129, 254, 255, 256, 257, 258, 270, 285, 286, 287, 288, 300, 511, 512, 513, 542, 543, 65535, 65536, 65537, 65566, 65567]) {
                    for cc in 0..6u8 {
                        item!({
                            let mut c = Call::random(form, &mut rng, plan.addr7, 32);
                            c.p[0] = cc;
                            c.blob = rng.bytes(n);
                            c
                        });
                    }
                }
            }
            Form::RGetVendor => {
                for n in 0..=7usize {
                    for cc in 0..6u8 {
                        item!({
                            let mut c = Call::random(form, &mut rng, plan.addr7, 32);
                            c.p[0] = cc;
                            c.blob = rng.bytes(n);
                            c
                        });
                    }
                }
            }
            Form::RSetEid => {
                for cc in 0..6u8 {
                    for a in 0..2u8 {
                        for al in 0..3u8 {
                            item!({
                                let mut c = Call::random(form, &mut rng, plan.addr7, 32);
                                c.p = [cc, a, al, 0];
                                c
                            });
                        }
                    }
                }
            }
            Form::RGetEid => {
                for cc in 0..6u8 {
                    for t in 0..2u8 {
                        for it in 0..4u8 {
                            for fair in 0..2u8 {
                                item!({
                                    let mut c = Call::random(form, &mut rng, plan.addr7, 32);
                                    c.p = [cc, t, it, fair];
                                    c
                                });
                            }
                        }
                    }
                }
            }
            Form::SetEid => {
                for op in 0..4u8 {
                    for eid in [0x00u8, 0x01, 0x02, 0x7F, 0x80, 0xFD, 0xFE, 0xFF] {
                        item!({
                            let mut c = Call::random(form, &mut rng, plan.addr7, 32);
                            c.p[0] = op;
                            c.p[1] = eid;
                            c
                        });
                    }
                }
            }
            _ => {}
        }
        // D: body length sweeps
        if plan.len_max > 0 && VARIABLE_FORMS.contains(&form) {
            let lens: Vec<usize> = (0..=plan.len_max).chain(plan.extra_lens.iter().copied()).collect();
            for &total_body in &lens {
                for _ in 0..plan.len_reps {
                    item!({
                        let mut c = Call::random(form, &mut rng, plan.addr7, 8);
                        // total_body = header bytes (own vendor header or caller header) + blob
                        let fixed = match form {
                            Form::VendorDefined => {
                                // keep the format valid for the length sweep
                                c.p[0] = rng.below(2) as u8;
                                if c.p[0] == 0 {
                                    2
                                } else {
                                    4
                                }
                            }
                            _ => c.hdr.as_ref().map(|h| h.len()).unwrap_or(0),
                        };
                        let blob_len = total_body.saturating_sub(fixed);
                        if total_body < fixed {
                            c.hdr = None;
                        }
                        c.blob = rng.bytes(blob_len);
                        c
                    });
                }
            }
        }
        // F: random
        let n = cfg.n(plan.random_per_form);
        for _ in 0..n {
            item!(Call::random(form, &mut rng, plan.addr7, plan.max_body));
        }
    }
    // C: address pairs
    for &form in &plan.pair_forms {
        for own in 0..addr_n {
            for dest in 0..addr_n {
                item!({
                    let mut c = Call::random(form, &mut rng, plan.addr7, 16);
                    c.own = own as u8;
                    c.dest = dest as u8;
                    // keep arguments valid so the pair is actually encoded
                    if form == Form::SetEid && (c.p[1] == 0 || c.p[1] == 0xFF) {
                        c.p[1] = 0x42;
                    }
                    if form == Form::VendorDefined {
                        c.p[0] &= 1;
                    }
                    if form == Form::RoutingUpdate && c.blob.len() > 28 {
                        c.blob.truncate(28);
                    }
                    if form == Form::RGetTypes && c.blob.len() > 30 {
                        c.blob.truncate(30);
                    }
                    c
                });
            }
        }
    }
    let _ = mix(0, 0);
}
