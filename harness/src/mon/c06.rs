//! C06 — control request bodies follow the DSP0236 command layouts.

use super::enc_common::*;
use super::*;
use crate::catalog::*;
use crate::encwl::*;
use crate::rng::hash_bytes;

pub fn mon() -> Mon {
    Mon {
        id: "C06",
        title: "Control request bodies follow the DSP0236 command layouts",
        run,
        finish,
        replay,
        rule: "The 17 control request encoders: every byte parameter through all 256 values, every enum variant, 0-9 routing entries (raw and constructor-built), random UUIDs, random products, plus exhaustive 256x256 parameter pairs for the two-byte-parameter commands (Allocate: pool x first EID per operation; Set EID: operation x EID; Query Hop: target x type); all into poisoned buffers. Bytes 9.. of each Ok output are compared with a literal DSP0236 layout table: [0x80, command code, parameters in specification order] and nothing else. Non-trivial = a request packet was judged; distinct = distinct (form, body bytes).",
        assumptions: &[
            "layouts and code points are numeric literals transcribed from DSP0236 Table 12 / clause 12, not taken from the library",
            "request_tx_rate_limit, update_rate_limmit and query_supported_interfaces are unimplemented!() stubs, not encoders (C06 says '17 implemented'); they are excluded",
        ],
        children: rel_child_quarter,
    }
}

fn plan(cfg: &RunCfg) -> EncPlan {
    let mut p = EncPlan::new(&REQUEST_FORMS);
    // the body does not depend on where the packet goes: the destination is swept as the byte parameter it is
    p.addr7 = false;
    p.random_per_form = cfg.pick(40_000, 2_000_000);
    p.param_sweep_reps = cfg.pick(24, 200) as u32;
    p.addr_sweep_reps = cfg.pick(3, 20) as u32;
    p
}

pub fn check(c: &Call, rep: &mut Report) {
    let exp = expected(c);
    let obs = observe(c, 0xC06);
    rep.eval();
    let form = c.form.name();
    let pkt = match note_outcome(rep, c, &obs) {
        Some(p) => p,
        None => {
            // arguments that are valid and fit the frame must be encoded with the stated layout;
            // a refusal or a panic is not that encoding
            // the statement is about the body; a destination byte above 0x7F is swept because it is a
            // byte parameter, but an encoder that refuses it (not a 7-bit address) encodes nothing wrong
            let may_refuse = if c.dest > 0x7F { exp.may_refuse.or(Some("destination byte above 0x7F")) } else { exp.may_refuse };
            if let (Some(why), Ok(Err(()))) = (may_refuse, &obs.res) {
                rep.class(&format!("unjudged:refused:{}", why));
            } else if exp.outcome == Outcome::Ok {
                let oc = match &obs.res {
                    Ok(Err(())) => "refused".to_string(),
                    Err(p) => format!("panic:{}", p.kind),
                    _ => "no-packet".to_string(),
                };
                rep.violation(&format!("{}:valid-message-not-encoded:{}", form, oc), || format!("valid arguments ({} byte packet expected) were not encoded: {}", exp.total_len(), obs.brief()), || c.encode());
            }
            return;
        }
    };
    let n = pkt.len();
    let body = &pkt[9..n - 1];
    rep.nontrivial(hash_bytes(c.form as u64 + 0x600, body));
    let what = if body.len() < 2 {
        Some("length")
    } else if body[0] != 0x80 {
        Some("ctrl-header-bits")
    } else if body[1] != exp.body[1] {
        Some("command-code")
    } else if body.len() != exp.body.len() {
        Some("length")
    } else if body != &exp.body[..] {
        Some("params")
    } else {
        None
    };
    if let Some(w) = what {
        rep.violation(
            &format!("{}:{}", form, w),
            || format!("body (bytes 9..) {} != DSP0236 layout {}; {}", crate::json::hex(body), crate::json::hex(&exp.body), obs.brief()),
            || c.encode(),
        );
    }
    if rep.want_sample() {
        rep.sample(|| sample_json(c, &obs));
    }
}

fn run(cfg: &RunCfg) -> Report {
    let mut rep = Report::new();
    let p = plan(cfg);
    for_each_call(cfg, "c06", &p, &mut |c, _| check(c, &mut rep));
    // exhaustive parameter pairs (thorough): Set EID (op x eid), Allocate (pool x first, per op),
    // Query Hop (target x type)
    if !cfg.is_small() {
        let mut rng = cfg.rng("c06-pairs");
        let mut counter = 0u64;
        let mut go = |c: Call, rep: &mut Report| {
            if counter % cfg.nshards as u64 == cfg.shard as u64 {
                check(&c, rep);
            }
            counter += 1;
        };
        for a in 0..=255u8 {
            for b in 0..=255u8 {
                for op in 0..3u8 {
                    let mut c = Call::random(Form::AllocEids, &mut rng, true, 0);
                    c.p = [op, a, b, 0];
                    go(c, &mut rep);
                }
            }
            for op in 0..4u8 {
                let mut c = Call::random(Form::SetEid, &mut rng, true, 0);
                c.p = [op, a, 0, 0];
                go(c, &mut rep);
            }
            for t in 0..6u8 {
                let mut c = Call::random(Form::QueryHop, &mut rng, true, 0);
                c.p = [a, t, 0, 0];
                go(c, &mut rep);
            }
        }
    }
    rep
}

fn finish(rep: &mut Report, cfg: &RunCfg) {
    floor(rep, cfg, 5_000);
    if !cfg.is_small() {
        for f in REQUEST_FORMS {
            if !rep.classes.contains_key(&format!("{}:ok", f.name())) {
                rep.inconclusive.push(format!("encoder {} never produced a packet", f.name()));
            }
        }
    }
}

fn replay(case: &str, rep: &mut Report) -> Result<(), String> {
    let c = Call::decode(case).ok_or("cannot parse case")?;
    check(&c, rep);
    Ok(())
}
