//! C19 — wire code points map to the right enumeration values.

use super::*;
use crate::json::J;
use crate::libapi::{cc_code, mt_code};
use crate::refmodel::wire::COMMAND_NAMES;
use crate::trap::trap;
use libmctp::base_packet::MessageType;
use libmctp::control_packet::{CommandCode, CompletionCode};

pub fn mon() -> Mon {
    Mon {
        id: "C19",
        title: "Wire code points map to the right enumeration values",
        run,
        finish,
        replay,
        rule: "All 256 byte values through CommandCode::from and MessageType::from, bytes 0-5 through CompletionCode::from; each result is compared (a) by variant identity with the variant DSP0236 names for that code point and (b) by numeric value with literal tables (command codes 0x00-0x14 else 0xFF, message types {0x00,0x05,0x06,0x7E,0x7F} else 0xFF, completion codes 0-5); every variant's numeric value is compared with its DSP0236 literal. Every (conversion, byte) pair is a distinct non-trivial case.",
        assumptions: &["completion codes above 5 are outside C19's claim (they are C10's, through the decoder)"],
        children: rel_child_quarter,
    }
}

fn named_command(b: u8) -> CommandCode {
    match b {
        0x00 => CommandCode::Reserved,
        0x01 => CommandCode::SetEndpointID,
        0x02 => CommandCode::GetEndpointID,
        0x03 => CommandCode::GetEndpointUUID,
        0x04 => CommandCode::GetMCTPVersionSupport,
        0x05 => CommandCode::GetMessageTypeSupport,
        0x06 => CommandCode::GetVendorDefinedMessageSupport,
        0x07 => CommandCode::ResolveEndpointID,
        0x08 => CommandCode::AllocateEndpointIDs,
        0x09 => CommandCode::RoutingInformationUpdate,
        0x0A => CommandCode::GetRoutingTableEntries,
        0x0B => CommandCode::PrepareForEndpointDiscovery,
        0x0C => CommandCode::EndpointDiscovery,
        0x0D => CommandCode::DiscoveryNotify,
        0x0E => CommandCode::GetNetworkID,
        0x0F => CommandCode::QueryHop,
        0x10 => CommandCode::ResolveUUID,
        0x11 => CommandCode::QueryRateLimit,
        0x12 => CommandCode::RequestTXRateLimit,
        0x13 => CommandCode::UpdateRateLimit,
        0x14 => CommandCode::QuerySupportedInterfaces,
        _ => CommandCode::Unknown,
    }
}

fn named_type(b: u8) -> MessageType {
    match b {
        0x00 => MessageType::MCtpControl,
        0x05 => MessageType::SpdmOverMctp,
        0x06 => MessageType::SecuredMessages,
        0x7E => MessageType::VendorDefinedPCI,
        0x7F => MessageType::VendorDefinedIANA,
        _ => MessageType::Invalid,
    }
}

fn named_cc(b: u8) -> CompletionCode {
    match b {
        0 => CompletionCode::Success,
        1 => CompletionCode::Error,
        2 => CompletionCode::ErrorInvalidData,
        3 => CompletionCode::ErrorInvalidLength,
        4 => CompletionCode::ErrorNotReady,
        _ => CompletionCode::ErrorUnsupportedCmd,
    }
}

/// conv: 0 command, 1 message type, 2 completion code
pub fn check(conv: u8, b: u8, rep: &mut Report) {
    if conv >= 2 && b > 5 {
        return; // outside C19's claim
    }
    rep.eval();
    rep.nontrivial(((conv as u64) << 8) | b as u64);
    let case = || format!("conv={};b={:02x}", conv, b);
    let bb = std::hint::black_box(b);
    match conv {
        0 => {
            let want = if b <= 0x14 { b } else { 0xFF };
            match trap(|| CommandCode::from(bb)) {
                Err(p) => rep.violation("CommandCode::from:panic", || format!("CommandCode::from({:#04x}) panicked: {}", b, p.long()), case),
                Ok(v) => {
                    let unknown_to_the_harness = (0..=0x14u8).all(|k| v != named_command(k)) && v != named_command(0xFF);
                    let num = v as u8;
                    // a code point the pinned enumeration does not define may have been given a
                    // variant of its own since (C19 fixes what a *defined* code point maps to, not
                    // which ones are defined): accepted iff that variant is none of the 22 known
                    // ones and its numeric value is the byte itself
                    if b > 0x14 && num == b && unknown_to_the_harness {
                        rep.class("command:defined-after-the-pinned-commit");
                        return;
                    }
                    // "every other byte maps to the Unknown variant" names a variant, not a number
                    // (benign/C19-o lets the compiler number the sentinel): the numeric value is
                    // judged for the defined code points only, the variant for all 256 bytes
                    if b <= 0x14 && num != want {
                        rep.violation("CommandCode::from:wrong-value", || format!("CommandCode::from({:#04x}) as u8 = {:#04x}, expected {:#04x}", b, num, want), case);
                    }
                    if v != named_command(b) {
                        let name = if b <= 0x14 { COMMAND_NAMES[b as usize] } else { "Unknown" };
                        rep.violation("CommandCode::from:wrong-variant", || format!("CommandCode::from({:#04x}) = {:?}, expected variant {}", b, v, name), case);
                    }
                    if b <= 0x14 && named_command(b) as u8 != want {
                        rep.violation("CommandCode:variant-value", || format!("variant {:?} has value {:#04x}, DSP0236 says {:#04x}", named_command(b), named_command(b) as u8, want), case);
                    }
                    rep.class(if b <= 0x14 { "command:defined" } else { "command:unknown" });
                }
            }
        }
        1 => {
            let want = if [0x00, 0x05, 0x06, 0x7E, 0x7F].contains(&b) { b } else { 0xFF };
            match trap(|| MessageType::from(bb)) {
                Err(p) => rep.violation("MessageType::from:panic", || format!("MessageType::from({:#04x}) panicked: {}", b, p.long()), case),
                Ok(v) => {
                    let by_name = mt_code(&v);
                    let same_variant = v == named_type(b);
                    let unknown_to_the_harness = [0x00u8, 0x05, 0x06, 0x7E, 0x7F, 0xFF].iter().all(|k| v != named_type(*k));
                    let num = v as u8;
                    if want == 0xFF && num == b && unknown_to_the_harness {
                        // see CommandCode above (benign/C19-k adds the other DSP0239 types)
                        rep.class("type:defined-after-the-pinned-commit");
                        return;
                    }
                    // the Invalid sentinel is identified by variant, its number is not pinned
                    if want == b && num != want {
                        rep.violation("MessageType::from:wrong-value", || format!("MessageType::from({:#04x}) as u8 = {:#04x}, expected {:#04x}", b, num, want), case);
                    }
                    if !same_variant || by_name != want {
                        rep.violation("MessageType::from:wrong-variant", || format!("MessageType::from({:#04x}) is the variant whose DSP0239 code is {:#04x}, expected {:#04x}", b, by_name, want), case);
                    }
                    if want == b && named_type(b) as u8 != want {
                        rep.violation("MessageType:variant-value", || format!("variant for {:#04x} has numeric value {:#04x}", want, named_type(b) as u8), case);
                    }
                    rep.class(if want == b { "type:defined" } else { "type:invalid" });
                }
            }
        }
        _ => {
            if b > 5 {
                return;
            }
            match trap(|| CompletionCode::from(bb)) {
                Err(p) => rep.violation("CompletionCode::from:panic", || format!("CompletionCode::from({}) panicked: {}", b, p.long()), case),
                Ok(v) => {
                    let by_name = cc_code(&v);
                    let same = v == named_cc(b);
                    let num = v as u8;
                    if num != b || by_name != b || !same {
                        rep.violation("CompletionCode::from:wrong-value", || format!("CompletionCode::from({}) as u8 = {}, variant code {}", b, num, by_name), case);
                    }
                    if named_cc(b) as u8 != b {
                        rep.violation("CompletionCode:variant-value", || format!("completion code variant for {} has numeric value {}", b, named_cc(b) as u8), case);
                    }
                    rep.class("completion:0-5");
                }
            }
        }
    }
}

fn run(cfg: &RunCfg) -> Report {
    let mut rep = Report::new();
    if cfg.shard != 0 {
        return rep;
    }
    for conv in 0..3u8 {
        for b in 0..=255u8 {
            check(conv, b, &mut rep);
        }
    }
    rep.sample(|| J::s(format!("CommandCode::from(0x0f) as u8 = {:#04x}", CommandCode::from(0x0F) as u8)));
    rep.sample(|| J::s(format!("MessageType::from(0x7f) as u8 = {:#04x}", MessageType::from(0x7F) as u8)));
    rep.sample(|| J::s(format!("MessageType::from(0x01) as u8 = {:#04x}", MessageType::from(0x01) as u8)));
    rep.sample(|| J::s(format!("CompletionCode::from(5) as u8 = {:#04x}", CompletionCode::from(5) as u8)));
    rep
}

fn finish(rep: &mut Report, _cfg: &RunCfg) {
    if rep.distinct_count() == 256 + 256 + 6 {
        rep.exhaustive = true;
        rep.exhaustive_spaces.push("all 256 bytes x CommandCode::from, MessageType::from; bytes 0-5 x CompletionCode::from".into());
    } else {
        rep.inconclusive.push(format!("expected 518 conversions, observed {}", rep.distinct_count()));
    }
}

fn replay(case: &str, rep: &mut Report) -> Result<(), String> {
    let mut conv = None;
    let mut b = None;
    for kv in case.split(';') {
        match kv.split_once('=') {
            Some(("conv", v)) => conv = v.parse::<u8>().ok(),
            Some(("b", v)) => b = u8::from_str_radix(v, 16).ok(),
            _ => {}
        }
    }
    check(conv.ok_or("no conv")?, b.ok_or("no b")?, rep);
    Ok(())
}
