//! Sequential reference model of an endpoint context (two EID cells, UUID, configuration) and the
//! history engine shared by C02, C13, C14, C15: operations are executed on the real context and on
//! the model, and every observable (result, response bytes, both EID accessors) is compared.

use super::crc::crc8;
use super::refdec::{decide, facts, RefOut};
use super::wire::*;
use crate::json::{hex, unhex};
use crate::libapi::*;
use crate::rng::Rng;
use libmctp::mctp_traits::SMBusMCTPRequestResponse;
use libmctp::smbus::MCTPSMBusContext;

#[derive(Clone, Debug, PartialEq, Eq)]
pub enum Op {
    Process(Vec<u8>),
    Decode(Vec<u8>),
    GetLength(Vec<u8>),
    /// get_request().set_eid(v)
    AccReq(u8),
    /// get_response().set_eid(v)
    AccResp(u8),
    SetUuid([u8; 16]),
}

impl Op {
    pub fn encode(&self) -> String {
        match self {
            Op::Process(x) => format!("P:{}", hex(x)),
            Op::Decode(x) => format!("D:{}", hex(x)),
            Op::GetLength(x) => format!("L:{}", hex(x)),
            Op::AccReq(v) => format!("A:{:02x}", v),
            Op::AccResp(v) => format!("B:{:02x}", v),
            Op::SetUuid(u) => format!("U:{}", hex(u)),
        }
    }
    pub fn decode(s: &str) -> Option<Op> {
        let (k, v) = s.split_once(':')?;
        let b = unhex(v)?;
        Some(match k {
            "P" => Op::Process(b),
            "D" => Op::Decode(b),
            "L" => Op::GetLength(b),
            "A" => Op::AccReq(*b.first()?),
            "B" => Op::AccResp(*b.first()?),
            "U" => {
                let mut u = [0u8; 16];
                if b.len() != 16 {
                    return None;
                }
                u.copy_from_slice(&b);
                Op::SetUuid(u)
            }
            _ => return None,
        })
    }
    pub fn kind(&self) -> &'static str {
        match self {
            Op::Process(_) => "process",
            Op::Decode(_) => "decode",
            Op::GetLength(_) => "get_length",
            Op::AccReq(_) => "set_eid(req)",
            Op::AccResp(_) => "set_eid(resp)",
            Op::SetUuid(_) => "set_uuid",
        }
    }
}

/// What the model expects of a processed packet.
#[derive(Clone, Debug, PartialEq, Eq)]
pub enum Expect {
    /// no response, buffer untouched, no state change
    Silent,
    /// a response whose bytes after the command code match the pattern (None = unspecified byte);
    /// `exact_len`: the data length is determined
    Respond { cmd: u8, data: Vec<Option<u8>>, what: &'static str, exact: bool },
    /// like `Respond`, but the request is not a complete single-packet message that owns its tag
    /// (SOM, EOM and TO are not all set - nothing the library itself ever emits): an answer is
    /// judged if there is one, its absence is not (benign/C15-o, C11-o, C12-o leave fragments and
    /// foreign-tag requests unanswered; no statement quantifies over transport flags)
    MayRespond { cmd: u8, data: Vec<Option<u8>>, what: &'static str, exact: bool },
    /// accepted request the properties say nothing specific about (may or may not respond), state unchanged
    Unspecified,
    /// accepted Set/Force Endpoint ID request carrying an EID outside 0x01-0xFE: outside every
    /// property's quantifier - response unjudged, and the model adopts the EID cells the context
    /// reports afterwards (see `Model::resync`)
    Resync,
}

#[derive(Clone, Debug)]
pub struct Model {
    pub cfg: CtxCfg,
    pub req_eid: u8,
    pub resp_eid: u8,
    pub uuid: [u8; 16],
}

fn some(v: &[u8]) -> Vec<Option<u8>> {
    v.iter().map(|b| Some(*b)).collect()
}

impl Model {
    pub fn new(cfg: &CtxCfg) -> Self {
        Model { cfg: cfg.clone(), req_eid: 0, resp_eid: 0, uuid: [0; 16] }
    }

    /// Expected vendor field for set i: [format, id bytes MSB first, numeric value MSB first]
    pub fn vendor_field(&self, i: usize) -> Vec<u8> {
        let (fmt, data, num) = self.cfg.vendors[i];
        let mut v = vec![fmt];
        if fmt == 0 {
            v.extend_from_slice(&[(data >> 8) as u8, data as u8]);
        } else {
            v.extend_from_slice(&[(data >> 24) as u8, (data >> 16) as u8, (data >> 8) as u8, data as u8]);
        }
        v.extend_from_slice(&[(num >> 8) as u8, num as u8]);
        v
    }

    /// Transition for a processed packet; returns the expectation for the response.
    pub fn process(&mut self, x: &[u8]) -> Expect {
        let complete = x.len() > 7 && x[7] & 0xC8 == 0xC8; // SOM, EOM, TO
        let before = (self.req_eid, self.resp_eid);
        match self.process_complete(x) {
            Expect::Respond { cmd, data, what, exact } if !complete => {
                if what == "set-eid-accepted" {
                    // an assignment carried by a fragment / foreign-tag packet: applied or not is free
                    self.req_eid = before.0;
                    self.resp_eid = before.1;
                    Expect::Resync
                } else {
                    Expect::MayRespond { cmd, data, what, exact }
                }
            }
            e => e,
        }
    }

    fn process_complete(&mut self, x: &[u8]) -> Expect {
        let f = facts(x);
        match decide(x) {
            RefOut::Accept { ty: TY_CONTROL, a, b } if f.rq => {
                let data = &x[a..b];
                match f.cmd {
                    0x01 => {
                        let op = data[0];
                        let eid = data[1];
                        if op & 0xFC != 0 {
                            // reserved bits 7:2 of the operation byte set: whether the operation is
                            // "Set"/"Force" by its low two bits (DSP0236; benign/C13-o) or none of the
                            // library's four operations (pinned tree) is not fixed by C13's "whose
                            // operation was Set or Force" - the model follows the context
                            Expect::Resync
                        } else if (op == 0 || op == 1) && (eid == 0x00 || eid == 0xFF) {
                            // C13 (and C12) quantify over EIDs 0x01-0xFE: an endpoint may adopt the
                            // null / broadcast EID or refuse it. The caller re-synchronises the
                            // model with whatever the context reports after this step.
                            Expect::Resync
                        } else if op == 0 || op == 1 {
                            self.req_eid = eid;
                            self.resp_eid = eid;
                            // Success, assignment accepted (bits 5:4 == 0), new EID; pool byte free
                            Expect::Respond { cmd: 0x01, data: vec![Some(0x00), None, Some(eid), None], what: "set-eid-accepted", exact: true }
                        } else if op == 3 {
                            Expect::Respond { cmd: 0x01, data: vec![Some(0x02)], what: "set-discovered-flag", exact: false }
                        } else {
                            Expect::Unspecified
                        }
                    }
                    // Get Endpoint ID / UUID / Message Types take no request data; what a request
                    // that carries some is answered with is pinned by no property (benign/C12-k
                    // answers ErrorInvalidLength)
                    0x02 | 0x03 | 0x05 if !data.is_empty() => Expect::Unspecified,
                    0x02 => Expect::Respond { cmd: 0x02, data: vec![Some(0x00), Some(self.resp_eid), None, None], what: "get-eid", exact: false },
                    0x03 => {
                        let mut d = vec![0x00u8];
                        d.extend_from_slice(&self.uuid);
                        Expect::Respond { cmd: 0x03, data: some(&d), what: "get-uuid", exact: true }
                    }
                    0x04 => {
                        let mut d = vec![0x00u8];
                        d.extend_from_slice(&VERSION_RESPONSE);
                        Expect::Respond { cmd: 0x04, data: some(&d), what: "get-version", exact: true }
                    }
                    0x05 => {
                        let mut d = vec![0x00u8, self.cfg.types.len() as u8];
                        d.extend_from_slice(&self.cfg.types);
                        Expect::Respond { cmd: 0x05, data: some(&d), what: "get-types", exact: true }
                    }
                    0x06 => {
                        let i = data[0] as usize;
                        let n = self.cfg.vendors.len();
                        if i < n {
                            let next = if i + 1 == n { 0xFF } else { (i + 1) as u8 };
                            let mut d = vec![0x00u8, next];
                            d.extend_from_slice(&self.vendor_field(i));
                            Expect::Respond { cmd: 0x06, data: some(&d), what: "get-vendor", exact: true }
                        } else {
                            Expect::Unspecified
                        }
                    }
                    _ => Expect::Unspecified,
                }
            }
            // responses, vendor messages, SPDM: accepted, no response; rejected: no response
            RefOut::Accept { .. } | RefOut::Reject(_) => Expect::Silent,
            RefOut::OutOfClaim(_) => {
                // short inputs / unjudged classes: the library may reject or (for the length classes
                // outside the C09 claim) accept; in no case is there anything to answer unless it is
                // an accepted request, which these classes are not
                if f.is_ctrl && f.rq {
                    Expect::Unspecified
                } else {
                    Expect::Silent
                }
            }
        }
    }

    /// After an `Expect::Resync` step: take the context's word for its EID cells.
    pub fn resync(&mut self, eids: (u8, u8)) {
        self.req_eid = eids.0;
        self.resp_eid = eids.1;
    }

    pub fn apply_non_packet(&mut self, op: &Op) {
        match op {
            Op::AccReq(v) => self.req_eid = *v,
            Op::AccResp(v) => self.resp_eid = *v,
            Op::SetUuid(u) => self.uuid = *u,
            _ => {}
        }
    }
}

/// What the real context did in one step.
#[derive(Clone, Debug)]
pub struct Obs {
    pub proc: Option<ProcOut>,
    pub dec: Option<DecOut>,
    pub len: Option<LenOut>,
    /// response bytes (rb[..len]) when a response was reported
    pub resp: Option<Vec<u8>>,
    /// response buffer unchanged outside the reported response
    pub rb_clean: bool,
    pub eids: (u8, u8),
}

pub fn exec(ctx: &mut MCTPSMBusContext, op: &Op, rblen: usize, poison_seed: u64) -> Obs {
    let mut o = Obs { proc: None, dec: None, len: None, resp: None, rb_clean: true, eids: (0, 0) };
    match op {
        Op::Process(x) => {
            let poison = Rng::new(poison_seed).bytes(rblen);
            let mut rb = poison.clone();
            let p = process(ctx, x, &mut rb);
            match p.resp_len() {
                Some(l) if l <= rb.len() => {
                    o.rb_clean = rb[l..] == poison[l..];
                    o.resp = Some(rb[..l].to_vec());
                }
                Some(_) => o.rb_clean = false,
                None => o.rb_clean = rb == poison,
            }
            o.proc = Some(p);
        }
        Op::Decode(x) => o.dec = Some(decode(ctx, x)),
        Op::GetLength(x) => o.len = Some(get_length(ctx, x)),
        Op::AccReq(v) => ctx.get_request().set_eid(*v),
        Op::AccResp(v) => ctx.get_response().set_eid(*v),
        Op::SetUuid(u) => {
            let r = crate::trap::trap(std::panic::AssertUnwindSafe(|| ctx.set_uuid(u)));
            let _ = r;
        }
    }
    o.eids = eids(ctx);
    o
}

/// Parsed view of a response packet (reference parsing, no library code).
pub struct RespView<'a> {
    pub cmd: u8,
    pub b9: u8,
    /// bytes after the command code: completion code, then fields
    pub data: &'a [u8],
    pub pec_ok: bool,
    pub count_ok: bool,
}

pub fn view(resp: &[u8]) -> Option<RespView<'_>> {
    let n = resp.len();
    if n < 13 || resp[8] != TY_CONTROL {
        return None;
    }
    Some(RespView { cmd: resp[10], b9: resp[9], data: &resp[11..n - 1], pec_ok: crc8(&resp[..n - 1]) == resp[n - 1], count_ok: resp[2] as usize == n - 4 })
}

pub fn pattern_matches(data: &[u8], pat: &[Option<u8>], exact_len: bool) -> bool {
    if exact_len && data.len() != pat.len() {
        return false;
    }
    if data.len() < pat.len() {
        return false;
    }
    data.iter().zip(pat).all(|(d, p)| p.map(|v| v == *d).unwrap_or(true))
}

pub fn pattern_str(pat: &[Option<u8>]) -> String {
    pat.iter().map(|p| p.map(|v| format!("{:02x}", v)).unwrap_or_else(|| "??".into())).collect::<Vec<_>>().join("")
}

/// A whole replayable history on one or more contexts.
#[derive(Clone, Debug)]
pub struct History {
    pub cfgs: Vec<CtxCfg>,
    /// (context index, op)
    pub ops: Vec<(usize, Op)>,
}

impl History {
    pub fn encode(&self) -> String {
        let c: Vec<String> = self.cfgs.iter().map(|c| c.encode()).collect();
        let o: Vec<String> = self.ops.iter().map(|(i, op)| format!("{}{}", i, op.encode())).collect();
        format!("{}#{}", c.join("~"), o.join(","))
    }
    pub fn decode(s: &str) -> Option<History> {
        let (c, o) = s.split_once('#')?;
        let cfgs: Option<Vec<CtxCfg>> = c.split('~').map(CtxCfg::decode).collect();
        let mut ops = Vec::new();
        if !o.is_empty() {
            for t in o.split(',') {
                let idx = t.get(..1)?.parse::<usize>().ok()?;
                ops.push((idx, Op::decode(t.get(1..)?)?));
            }
        }
        Some(History { cfgs: cfgs?, ops })
    }
}

/// Run `f` with fresh contexts built from the configurations.
pub fn with_contexts<R>(cfgs: &[CtxCfg], f: impl FnOnce(&mut [MCTPSMBusContext]) -> R) -> R {
    let vend: Vec<Vec<libmctp::vendor_packets::VendorIDFormat>> = cfgs.iter().map(|c| c.vendor_vec()).collect();
    let mut ctxs: Vec<MCTPSMBusContext> = cfgs.iter().zip(&vend).map(|(c, v)| MCTPSMBusContext::new(c.addr, &c.types, v)).collect();
    f(&mut ctxs)
}

/// One disagreement between the real context and the model.
#[derive(Clone, Debug)]
pub struct Disc {
    pub cat: &'static str,
    pub detail: String,
    /// command code of the request the discrepancy is about (None for state discrepancies)
    pub cmd: Option<u8>,
}

/// Compare what the context did with what the model expects. `m` is the model *after* the step.
pub fn judge(exp: Option<&Expect>, obs: &Obs, m: &Model) -> Vec<Disc> {
    let mut v = Vec::new();
    if obs.eids != (m.req_eid, m.resp_eid) {
        v.push(Disc {
            cmd: None,
            cat: "eid-cells",
            detail: format!("accessors report (request half {:#04x}, response half {:#04x}), model says ({:#04x}, {:#04x})", obs.eids.0, obs.eids.1, m.req_eid, m.resp_eid),
        });
    }
    match exp {
        None | Some(Expect::Unspecified) | Some(Expect::Resync) => {}
        Some(Expect::Silent) => {
            if let Some(r) = &obs.resp {
                v.push(Disc { cmd: None, cat: "unexpected-response", detail: format!("a {}-byte response {} was produced for an input that is not an accepted control request", r.len(), hex(r)) });
            } else if !obs.rb_clean {
                v.push(Disc { cmd: None, cat: "buffer-touched", detail: "response buffer changed although no response was reported".into() });
            }
        }
        Some(Expect::MayRespond { .. }) if obs.resp.is_none() => {
            if !obs.rb_clean {
                v.push(Disc { cmd: None, cat: "buffer-touched", detail: "response buffer changed although no response was reported".into() });
            }
        }
        Some(Expect::Respond { cmd, data, what, exact }) | Some(Expect::MayRespond { cmd, data, what, exact }) => match &obs.resp {
            None => v.push(Disc { cmd: Some(*cmd), cat: "no-response", detail: format!("no response to an accepted request with command {:#04x} ({}); result {}", cmd, what, obs.proc.as_ref().map(|p| p.brief()).unwrap_or_default()) }),
            Some(r) => match view(r) {
                None => v.push(Disc { cmd: Some(*cmd), cat: "malformed-response", detail: format!("response {} is not a control message of at least 13 bytes", hex(r)) }),
                Some(vw) => {
                    // PEC and byte count of responses are C12's / C03's / C04's business, not the
                    // content monitors'; they are deliberately not judged here
                    if vw.cmd != *cmd {
                        v.push(Disc { cmd: Some(*cmd), cat: "wrong-command", detail: format!("response {} carries command {:#04x}, request had {:#04x}", hex(r), vw.cmd, cmd) });
                    } else if !pattern_matches(vw.data, data, *exact) {
                        v.push(Disc { cmd: Some(*cmd), cat: what, detail: format!("response data (completion code onwards) {} does not match {}{}", hex(vw.data), pattern_str(data), if *exact { " (exact length)" } else { "" }) });
                    } else if *what == "set-eid-accepted" && (vw.data[1] >> 4) & 3 != 0 {
                        v.push(Disc { cmd: Some(*cmd), cat: what, detail: format!("assignment status bits 5:4 of {:#04x} are not 'accepted'", vw.data[1]) });
                    }
                    if !obs.rb_clean {
                        v.push(Disc { cmd: Some(*cmd), cat: "buffer-touched", detail: "bytes beyond the reported response length changed".into() });
                    }
                }
            },
        },
    }
    v
}
