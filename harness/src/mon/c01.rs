//! C01 — encode then decode is the identity on message type and payload.

use super::enc_common::*;
use super::*;
use crate::catalog::*;
use crate::corpus;
use crate::encwl::*;
use crate::json::{hex, J};
use crate::libapi::*;
use crate::refmodel::refdec::{decide, RefOut};
use crate::rng::hash_bytes;
use libmctp::smbus::MCTPSMBusContext;

pub fn mon() -> Mon {
    Mon {
        id: "C01",
        title: "Encode then decode is the identity on message type and payload",
        run,
        finish,
        replay,
        rule: "Every catalogue call the encoder accepts (all 32 call forms: parameter sweeps, 7-bit address sweeps, 128x128 pairs on representative forms, every body length up to the SMBus limit, all six completion codes, random products) is encoded and the exact n output bytes are handed to decode_packet on five receiving contexts that differ in address, configuration and history (fresh; EID assigned; after 50 processed packets; the sender itself; the addressee right after it encoded one or two requests of its own to the sender - an outstanding request for a usually different command - sometimes after a history with conversations). Oracle (literals): control request -> Ok(type 0x00, payload = input[11..n-1]); Success response -> input[12..n-1]; vendor/SPDM -> input[9..n-1], with the payload pointer range checked to be that sub-slice and the bytes equal to what the caller passed; completion code c in 1..=5 -> Err(MCtpControl, UnsuccessfulCompletionCode(c)). Non-trivial = an encoded packet was decoded and judged; distinct = distinct packets.",
        assumptions: &[
            "7-bit source/destination addresses (the property's quantifier)",
            "oversize bodies the encoder cannot frame are C04/C16's business and are skipped",
            "outputs of the raw trait-level control generator are judged only when the caller-supplied bytes form a control message the C09 reference accepts",
        ],
        children: rel_child_quarter,
    }
}

fn plan(cfg: &RunCfg) -> EncPlan {
    let mut p = EncPlan::new(&ALL_FORMS);
    p.len_max = 249;
    p.len_reps = cfg.pick(1, 40) as u32;
    p.random_per_form = cfg.pick(20_000, 2_000_000);
    p.param_sweep_reps = cfg.pick(2, 40) as u32;
    p.addr_sweep_reps = cfg.pick(1, 10) as u32;
    p.pair_forms = vec![Form::SetEid, Form::QueryRate, Form::VendorDefined, Form::RGetUuid, Form::RGetVer, Form::GenSpdmReq];
    if !cfg.thorough() {
        p.pair_forms.truncate(4);
    }
    if cfg.is_small() {
        p.pair_forms.clear();
        p.len_max = 0;
    }
    p
}

/// expected decode result for a packet of n bytes
#[derive(Debug, PartialEq, Eq)]
enum Want {
    Ok { ty: u8, off: usize, len: usize },
    Unsuccessful(u8),
    NoClaim,
}

fn want(c: &Call, exp: &Exp, pkt: &[u8]) -> Want {
    let n = pkt.len();
    match exp.kind {
        Kind::CtrlRequest => Want::Ok { ty: 0x00, off: 11, len: n - 12 },
        Kind::CtrlResponse => {
            if c.p[0] == 0 {
                Want::Ok { ty: 0x00, off: 12, len: n - 13 }
            } else {
                Want::Unsuccessful(c.p[0])
            }
        }
        Kind::Vendor => Want::Ok { ty: exp.ty, off: 9, len: n - 10 },
        Kind::CtrlRaw => match decide(pkt) {
            RefOut::Accept { ty, a, b } => Want::Ok { ty, off: a, len: b - a },
            _ => Want::NoClaim,
        },
    }
}

fn key_form(c: &Call) -> String {
    if c.form == Form::VendorDefined {
        format!("{}[{}]", c.form.name(), if c.p[0] == 0 { "pci" } else { "iana" })
    } else {
        c.form.name().to_string()
    }
}

pub fn check(c: &Call, receivers: &[(&str, &MCTPSMBusContext)], rep: &mut Report) {
    if expected(c).outcome != Outcome::Ok {
        return;
    }
    let obs = observe(c, 0xC01);
    let exp = crate::catalog::expected_as_stored(c);
    rep.eval();
    let pkt = match note_outcome(rep, c, &obs) {
        Some(p) => p.to_vec(),
        None => return,
    };
    let w = want(c, &exp, &pkt);
    if w == Want::NoClaim {
        rep.class("raw-control-bytes-not-a-wellformed-message:skipped");
        return;
    }
    rep.nontrivial(hash_bytes(1, &pkt));
    let kf = key_form(c);
    // the sender itself is the fourth receiving context
    let types = [0x7Eu8];
    let vend = [libmctp::vendor_packets::VendorIDFormat { format: 0, data: 0x1414, numeric_value: 4 }];
    let sender = MCTPSMBusContext::new(c.own, &types, &vend);
    // the fifth: the peer the packet is addressed to, in the middle of its own business - it has
    // (sometimes after a short history with conversations) just encoded a request of its own to the
    // sender, for a command that usually differs from the one this packet is about, and has not
    // seen the answer yet. A response or request arriving now is still the encoder's own output.
    let peer_addr = pkt[0] >> 1;
    let mut peer = MCTPSMBusContext::new(peer_addr, &types, &vend);
    {
        let h = hash_bytes(0xC01_5, &pkt);
        let mut prng = crate::rng::Rng::new(h);
        if h % 3 == 0 {
            run_history(&mut peer, peer_addr, c.own, h | 1);
        }
        let mut scratch = [0u8; 300];
        for _ in 0..1 + (h >> 8) % 2 {
            let form = *prng.pick(&REQUEST_FORMS);
            let mut q = Call::random(form, &mut prng, true, 24);
            q.hist = 0;
            q.own = peer_addr;
            q.dest = if prng.chance(3, 4) { c.own } else { prng.byte() & 0x7F };
            let _ = invoke_on(&peer, &q, &mut scratch, false);
        }
    }
    let mut all: Vec<(&str, &MCTPSMBusContext)> = receivers.to_vec();
    all.push(("sender", &sender));
    all.push(("addressee-with-an-outstanding-request", &peer));
    for (name, ctx) in all {
        let got = decode(ctx, &pkt);
        rep.eval();
        let case = || c.encode();
        match (&w, &got) {
            (Want::Ok { ty, off, len }, DecOut::Ok { ty: gt, off: go, len: gl }) => {
                if gt != ty {
                    rep.violation(&format!("{}:wrong-type", kf), || format!("decoded as type {:#04x}, encoded as {:#04x}; packet {} on receiver {}", gt, ty, hex(&pkt), name), case);
                } else if go != off || gl != len {
                    rep.violation(
                        &format!("{}:payload-range", kf),
                        || format!("payload is input[{}..{}], expected input[{}..{}] (ends right before the PEC); packet {} on receiver {}", go, go.wrapping_add(*gl), off, off + len, hex(&pkt), name),
                        case,
                    );
                } else {
                    // byte-for-byte what the caller encoded
                    let skip = match exp.kind {
                        Kind::CtrlRequest => 2,
                        Kind::CtrlResponse => 3,
                        Kind::Vendor => 0,
                        Kind::CtrlRaw => *off - 9,
                    };
                    if pkt[*off..off + len] != exp.body[skip..] {
                        rep.violation(&format!("{}:payload-bytes", kf), || format!("payload {} != encoded arguments {}; packet {}", hex(&pkt[*off..off + len]), hex(&exp.body[skip..]), hex(&pkt)), case);
                    }
                    rep.class("roundtrip:ok");
                }
            }
            (Want::Unsuccessful(cc), DecOut::Err { mt: 0x00, ek: EK::Unsuccessful(g) }) if g == cc => rep.class("roundtrip:unsuccessful-code"),
            (_, DecOut::Panic(p)) => {
                rep.violation(&format!("{}:decode-panic:{}", kf, p.kind), || format!("decode_packet panicked on the encoder's own output {}: {} (receiver {})", hex(&pkt), p.long(), name), case);
            }
            // the identity of this failure is "the decoder rejects this encoder's own output"; which
            // error value it uses to say so is not part of the key (a renamed or new error variant
            // is the same defect), it is in the detail text
            (Want::Ok { .. }, g @ DecOut::Err { .. }) => {
                rep.violation(&format!("{}:own-output-rejected", kf), || format!("decode_packet({}) = {}, expected {:?} (receiver {})", hex(&pkt), g.brief(), w, name), case);
            }
            (_, g) => {
                rep.violation(&format!("{}:decode-{}", kf, g.class()), || format!("decode_packet({}) = {}, expected {:?} (receiver {})", hex(&pkt), g.brief(), w, name), case);
            }
        }
    }
    if rep.want_sample() {
        rep.sample(|| J::obj(vec![("call", J::s(c.describe())), ("packet", J::s(hex(&pkt))), ("expected_decode", J::s(format!("{:?}", w)))]));
    }
}

pub fn with_receivers<R>(seed: u64, f: impl FnOnce(&[(&str, &MCTPSMBusContext)]) -> R) -> R {
    let mut rng = crate::rng::Rng::new(seed);
    let ca = CtxCfg::simple(0x23);
    let cb = CtxCfg::random(&mut rng, false);
    let cc = CtxCfg { addr: 0x7F, types: (0..30).collect(), vendors: (0..16).map(|i| ((i & 1) as u8, 0xABCD_0000 + i as u32, i as u16)).collect() };
    with_ctx(&ca, |a| {
        with_ctx(&cb, |b| {
            with_ctx(&cc, |c| {
                let mut rb = [0u8; 128];
                let p = crate::refmodel::forge::ctrl_request(cb.addr & 0x7F, 0x11, 3, false, 0x01, &[0x00, 0x42]);
                let _ = process(b, &p, &mut rb);
                for _ in 0..50 {
                    let (s7, iid) = (rng.byte() & 0x7F, rng.byte() & 0x1F);
                    let p = corpus::answerable_request(&mut rng, 0x7F, s7, iid, 16);
                    let _ = process(c, &p, &mut rb);
                }
                f(&[("fresh", &*a), ("eid-assigned", &*b), ("after-50-packets", &*c)])
            })
        })
    })
}

fn run(cfg: &RunCfg) -> Report {
    let mut rep = Report::new();
    let p = plan(cfg);
    with_receivers(cfg.seed, |rx| {
        for_each_call(cfg, "c01", &p, &mut |c, _| check(c, rx, &mut rep));
    });
    rep
}

fn finish(rep: &mut Report, cfg: &RunCfg) {
    if cfg.is_small() {
        return;
    }
    floor(rep, cfg, 30_000);
    for f in ALL_FORMS {
        if !rep.classes.contains_key(&format!("{}:ok", f.name())) {
            rep.inconclusive.push(format!("encoder {} never produced a packet", f.name()));
        }
    }
}

fn replay(case: &str, rep: &mut Report) -> Result<(), String> {
    let c = Call::decode(case).ok_or("cannot parse case")?;
    with_receivers(1, |rx| check(&c, rx, rep));
    Ok(())
}
