//! C03 — every encoded packet ends with the correct SMBus PEC.

use super::enc_common::*;
use super::*;
use crate::catalog::*;
use crate::encwl::*;
use crate::refmodel::crc::crc8;
use crate::rng::hash_bytes;

pub fn mon() -> Mon {
    Mon {
        id: "C03",
        title: "Every encoded packet ends with the correct SMBus PEC",
        run,
        finish,
        replay,
        rule: "Encoder catalogue (32 call forms) plus the responses process_packet encodes for forged requests (every instance ID, answerable and unsupported commands): every value of every small parameter, every 7-bit destination and own address, 128x128 address pairs on selected forms, every body length 0..255 on the variable-body forms, plus seeded random argument products; each output's last byte is compared with an independent bit-serial CRC-8 (poly 0x07, init 0) of the preceding bytes and the CRC of the whole packet with 0. Non-trivial = the encoder returned Ok(n) with n >= 10 (a packet exists to judge); distinct = distinct output byte strings.",
        assumptions: &[
            "reference CRC-8 self-tested against the CRC-8/SMBUS check value 0xF4 at start-up",
            "7-bit own and destination addresses",
            "packets that the encoder refuses or panics on carry no PEC verdict (C04/C16 judge those)",
        ],
        children: rel_child,
    }
}

fn plan(cfg: &RunCfg) -> EncPlan {
    let mut p = EncPlan::new(&ALL_FORMS);
    p.len_max = 255;
    p.len_reps = cfg.pick(6, 200) as u32;
    p.max_body = 255;
    p.random_per_form = cfg.pick(15_000, 1_500_000);
    p.param_sweep_reps = cfg.pick(1, 20) as u32;
    p.addr_sweep_reps = cfg.pick(1, 20) as u32;
    p.pair_forms = if cfg.thorough() {
        ALL_FORMS.to_vec()
    } else {
        vec![Form::GetEid, Form::RGetVer, Form::VendorDefined, Form::GenSpdmResp]
    };
    if cfg.part == "rel" {
        p.random_per_form = cfg.pick(1000, 50_000);
        p.pair_forms = vec![Form::SetEid, Form::RGetUuid];
        p.len_reps = cfg.pick(1, 20) as u32;
    }
    if cfg.is_small() {
        p.pair_forms.clear();
        p.len_max = 0;
    }
    p
}

pub fn check(c: &Call, rep: &mut Report) {
    let obs = observe(c, 0xC03);
    rep.eval();
    let pkt = match note_outcome(rep, c, &obs) {
        Some(p) => p,
        None => return,
    };
    let n = pkt.len();
    rep.class(len_bucket(n));
    rep.nontrivial(hash_bytes(3, pkt));
    let want = crc8(&pkt[..n - 1]);
    if want != pkt[n - 1] || crc8(pkt) != 0 {
        rep.violation(
            &format!("{}:pec-mismatch", c.form.name()),
            || format!("last byte {:#04x} != CRC-8 {:#04x} of the preceding {} bytes; {}", pkt[n - 1], want, n - 1, obs.brief()),
            || c.encode(),
        );
    }
    // a retry into the same buffer whose PEC slot was damaged in the meantime must again end with the PEC
    if n >= 10 {
        let mut init = obs.buf[..n].to_vec();
        init.extend_from_slice(&[0x3C, 0xC3]);
        init[n - 1] ^= 0xA5;
        let (res, out) = invoke_aligned(c, &init, n & 7);
        rep.eval();
        if let Ok(Ok(m)) = res {
            if m >= 10 && m <= out.len() && crc8(&out[..m - 1]) != out[m - 1] {
                rep.violation(
                    &format!("{}:pec-mismatch:retry-into-used-buffer", c.form.name()),
                    || format!("re-encoding into a buffer that held the same packet with a damaged last byte: last byte {:#04x} != CRC-8 {:#04x}", out[m - 1], crc8(&out[..m - 1])),
                    || c.encode(),
                );
            }
        }
    }
    if rep.want_sample() {
        rep.sample(|| sample_json(c, &obs));
    }
}

fn run(cfg: &RunCfg) -> Report {
    let mut rep = Report::new();
    let p = plan(cfg);
    for_each_call(cfg, "c03", &p, &mut |c, _| check(c, &mut rep));
    // the packets process_packet encodes are encoded packets too
    let n = if cfg.is_small() { 200 } else { cfg.pick(200_000, 4_000_000) };
    let mut rrep = Report::new();
    for_each_response(cfg, "c03-responder", n, &mut |req, resp, who, rep| check_response(req, resp, who, rep), &mut rrep);
    rep.merge(rrep);
    rep
}

pub fn check_response(req: &[u8], resp: &[u8], who: &crate::libapi::CtxCfg, rep: &mut Report) {
    rep.eval();
    let n = resp.len();
    rep.class("responder:response");
    rep.nontrivial(hash_bytes(0x33, resp));
    let want = crc8(&resp[..n - 1]);
    if want != resp[n - 1] {
        rep.violation(
            &format!("process_packet-response:cmd-{}:pec-mismatch", if req[10] <= 0x14 { format!("{:#04x}", req[10]) } else { "unknown".into() }),
            || format!("response {} to request {}: last byte {:#04x} != CRC-8 {:#04x} of the preceding bytes", crate::json::hex(resp), crate::json::hex(req), resp[n - 1], want),
            || format!("resp|{}|{}", who.encode(), crate::json::hex(req)),
        );
    }
}

fn finish(rep: &mut Report, cfg: &RunCfg) {
    floor(rep, cfg, 20_000);
}

fn replay(case: &str, rep: &mut Report) -> Result<(), String> {
    if let Some(rest) = case.strip_prefix("resp|") {
        return replay_response(rest, rep, &mut |q, r, w, rep| check_response(q, r, w, rep));
    }
    let c = Call::decode(case).ok_or("cannot parse case")?;
    check(&c, rep);
    Ok(())
}
