#!/usr/bin/env python3
"""Reach monitor: reduce an `llvm-cov export` of the instrumented harness to execution counts of the
functions each property is anchored in, plus line coverage of /repo/src (non-test code).

usage: reach.py <property id> <export.json> <out.json>
"""
import json
import sys

# property -> name fragments of the library functions its mechanism lives in (matched against the
# mangled symbol names, which contain the path segments verbatim)
ANCHORS = {
    "C01": ["decode_packet", "get_mctp_control_packet", "to_raw_bytes"],
    "C02": ["decode_packet", "process_packet", "get_mctp_control_packet"],
    "C03": ["to_raw_bytes", "generate_control_packet_bytes", "generate_pci_msg_packet_bytes", "generate_iana_msg_packet_bytes", "generate_spdm_msg_packet_bytes"],
    "C04": ["generate_smbus_header", "finalise", "fits_byte_count", "get_length"],
    "C05": ["generate_transport_header", "MCTPMessageBodyHeader"],
    "C06": ["set_endpoint_id", "allocate_endpoint_ids", "routing_information_update", "query_hop", "resolve_uuid", "MCTPControlMessageHeader"],
    "C07": ["set_endpoint_id", "get_endpoint_id", "get_endpoint_uuid", "get_mctp_version_support", "get_message_type_suport", "get_vendor_defined_message_support"],
    "C08": ["vendor_defined", "PCIMessageFormat", "IANAMessageFormat", "generate_spdm_msg_packet_bytes"],
    "C09": ["decode_packet", "get_smbus_headers", "get_mctp_control_packet", "get_request_data_len", "get_response_data_len"],
    "C10": ["decode_packet", "get_length", "process_packet", "get_mctp_control_packet"],
    "C11": ["process_packet", "decode_packet"],
    "C12": ["process_packet", "generate_control_packet_bytes"],
    "C13": ["process_packet", "set_eid", "get_eid"],
    "C14": ["process_packet", "get_vendor_defined_message_support"],
    "C15": ["process_packet", "set_uuid", "get_message_type_suport", "get_endpoint_uuid", "get_mctp_version_support"],
    "C16": ["set_endpoint_id", "routing_information_update", "get_message_type_suport", "vendor_defined", "to_raw_bytes"],
    "C17": ["get_length"],
    "C18": ["MCTPTransportHeader", "MCTPMessageBodyHeader", "MCTPControlMessageHeader", "MCTPSMBusHeader", "SMBusRoutingInformationUpdateEntry", "PCIMessageFormat", "IANAMessageFormat"],
    "C19": ["CommandCode", "CompletionCode", "MessageType"],
}


# Anchors that the workload calls *directly* through the public API (or, for C18/C19, the types whose
# accessors / conversions the monitor itself invokes). Only these can make a run inconclusive: if one of
# them is present in the binary and was never executed, the workload did not do its job. The other
# anchors are internal helpers and helper types (get_mctp_control_packet, finalise, PCIMessageFormat ...):
# a refactor may stop using them (benign/C08-g builds the vendor header with to_be_bytes and leaves the
# bitfield views unused), so an unexecuted helper is recorded (`unreached_helpers`) but not judged.
DIRECT = {
    "decode_packet", "process_packet", "get_length", "set_endpoint_id", "allocate_endpoint_ids", "routing_information_update",
    "query_hop", "resolve_uuid", "get_endpoint_id", "get_endpoint_uuid", "get_mctp_version_support", "get_message_type_suport",
    "get_vendor_defined_message_support", "vendor_defined", "generate_control_packet_bytes", "generate_pci_msg_packet_bytes",
    "generate_iana_msg_packet_bytes", "generate_spdm_msg_packet_bytes", "set_eid", "get_eid", "set_uuid",
}
DIRECT_PROPS = {"C18", "C19"}  # every anchor of these is exercised directly by the monitor


def main():
    prop, src, out = sys.argv[1:4]
    data = json.load(open(src))["data"][0]
    funcs = [f for f in data.get("functions", []) if any("/repo/src/" in fn for fn in f.get("filenames", []))]
    anchors = {}
    for frag in ANCHORS.get(prop, []):
        hits = [f for f in funcs if frag in f["name"]]
        anchors[frag] = {"functions": len(hits), "executions": sum(f["count"] for f in hits)}
    files = {}
    tot = cov = 0
    for f in data.get("files", []):
        name = f["filename"]
        if "/repo/src/" not in name:
            continue
        s = f["summary"]["lines"]
        files[name.split("/repo/")[1]] = {"lines": s["count"], "covered": s["covered"]}
        tot += s["count"]
        cov += s["covered"]
    res = {
        "anchored_functions": anchors,
        # present in the binary but never executed: the workload missed the mechanism -> inconclusive
        "unreached_anchors": sorted(k for k, v in anchors.items() if v["functions"] > 0 and v["executions"] == 0 and (k in DIRECT or prop in DIRECT_PROPS)),
        "unreached_helpers": sorted(k for k, v in anchors.items() if v["functions"] > 0 and v["executions"] == 0 and not (k in DIRECT or prop in DIRECT_PROPS)),
        # no function of that name in this tree (renamed / removed by a refactor, or a generic that is
        # never instantiated): nothing to reach; recorded, not judged - the per-check floors on oracle
        # evaluations and observed classes still guard against a workload that does nothing
        "absent_anchors": sorted(k for k, v in anchors.items() if v["functions"] == 0),
        "library_line_coverage": {"lines": tot, "covered": cov, "files": files},
        "note": "cov build of the harness (-Cinstrument-coverage), this property's quick-sized workload at scale 0.1; counts include inlined instantiations reported by llvm-cov",
    }
    json.dump(res, open(out, "w"), indent=1)


if __name__ == "__main__":
    main()
