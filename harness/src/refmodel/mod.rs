pub mod crc;
pub mod forge;
pub mod refdec;
pub mod wire;
