//! Receive-path packet corpus (filled in below by the receive-side monitors).
