//! C09 — the decoder accepts exactly the well-formed packets and its errors are truthful.

use super::*;
use crate::classify::*;
use crate::corpus::*;
use crate::json::{hex, unhex, J};
use crate::libapi::*;
use crate::refmodel::refdec::*;
use crate::rng::hash_bytes;
use libmctp::smbus::MCTPSMBusContext;

pub fn mon() -> Mon {
    Mon {
        id: "C09",
        title: "The decoder accepts exactly the well-formed packets and its errors are truthful",
        run,
        finish,
        replay,
        rule: "Receive corpus (same systematic sweeps as C10: every value of header bytes 0-12, every type byte, every control header byte, command 0..255 x direction x data length 0..24 (48 thorough), every completion code, valid and invalid PECs, truncations, every total length, padded and random strings) decoded on four contexts with different address, configuration and history plus three contexts derived from each packet (the addressee: address/EID equal to the packet's destination; the sender; a cross-wired one). An independent reference decoder written from the statement decides accept/reject, the payload range, and the set of truthful errors; the library must agree on accept/reject and range, any error it returns must be in the truthful set, and the four contexts must answer identically. Non-trivial = an in-claim input (not one of the statically excluded byte classes) was judged; distinct = distinct in-claim byte strings.",
        assumptions: &[
            "outside the claim, by the property's text and as a fixed byte-determined list: inputs shorter than 10 bytes, control requests shorter than 12 and responses shorter than 13 bytes, Success responses to commands 0x02/0x08/0x09",
            "an error variant added to the library after this harness was written (EK::Other) names a condition the oracle cannot know: such a rejection is counted as unjudged, not as untruthful",
            "the choice among several true error conditions is free (order of checks is not specified)",
        ],
        children: rel_child_quarter,
    }
}

fn truthful(mt: u8, ek: &EK, t: &Truth) -> bool {
    if mt == 0xFF {
        if !t.hdr_bad {
            return false;
        }
        return match ek {
            EK::Unknown => true,
            EK::InvalidPec => t.pec_bad,
            _ => false,
        };
    }
    if t.hdr_bad {
        // the error names the type the packet's own type field claims
        return t.claimed_ty == Some(mt)
            && match ek {
                EK::Unknown | EK::CtlUnknown => true,
                EK::InvalidPec => t.pec_bad,
                _ => false,
            };
    }
    if t.ty != Some(mt) {
        return false;
    }
    match ek {
        EK::InvalidPec => t.pec_bad,
        EK::InvalidLen => t.len_bad && mt == 0x00,
        EK::Unsuccessful(c) => t.cc == Some(*c) && mt == 0x00,
        // names no condition; the only way to report a completion code that has no variant
        EK::CtlUnknown => t.cc_undefined && mt == 0x00,
        _ => false,
    }
}

pub fn check(ctxs: &[&MCTPSMBusContext], x: &[u8], rep: &mut Report) {
    rep.eval();
    let case = || hex(x);
    let r = decide(x);
    let mut outs: Vec<DecOut> = ctxs.iter().map(|c| decode(c, x)).collect();
    // two more contexts derived from the packet itself: one that IS the addressee (address = the
    // packet's destination address, both EID cells = its destination EID) and one that is the
    // sender; "is this for me?" is the most plausible way for a decoder to depend on its context
    if x.len() >= 7 {
        use libmctp::mctp_traits::SMBusMCTPRequestResponse;
        for (addr, eid) in [(x[0] >> 1, x[5]), (x[3] >> 1, x[6]), (x[5], x[0])] {
            let cc = CtxCfg::simple(addr);
            outs.push(with_ctx(&cc, |c| {
                c.get_request().set_eid(eid);
                c.get_response().set_eid(eid);
                decode(c, x)
            }));
        }
    }
    let got = &outs[0];
    let dclass = decode_class(x);
    if let RefOut::OutOfClaim(cls) = &r {
        rep.class(&format!("out-of-claim:{}", cls));
        return;
    }
    rep.nontrivial(hash_bytes(9, x));
    for (i, o) in outs.iter().enumerate().skip(1) {
        if o != got {
            rep.violation(
                &format!("context-dependent:{}", dclass),
                || format!("decode_packet({}) = {} on context 0 but {} on context {}", hex(x), got.brief(), o.brief(), i),
                case,
            );
            break;
        }
    }
    // what the *reference* says about this input (the coverage floor is stated in these terms, not in
    // terms of the error values the library happens to use)
    match &r {
        RefOut::Accept { .. } => rep.class("judged:must-accept"),
        RefOut::Reject(t) => {
            if t.hdr_bad {
                rep.class("judged:must-reject:header-unsupported");
            }
            if t.pec_bad {
                rep.class("judged:must-reject:pec-wrong");
            }
            if t.len_bad {
                rep.class("judged:must-reject:length-wrong");
            }
            if t.cc.is_some() {
                rep.class("judged:must-reject:completion-code-1-5");
            }
            if t.cc_undefined {
                rep.class("judged:must-reject:completion-code-6-255");
            }
        }
        RefOut::OutOfClaim(_) => {}
    }
    match (&r, got) {
        (_, DecOut::Panic(p)) => {
            rep.violation(&format!("in-domain-panic:{}:{}", dclass, p.kind), || format!("decode_packet panicked on in-claim input {}: {}", hex(x), p.long()), case);
        }
        (RefOut::Accept { ty, a, b }, DecOut::Ok { ty: gt, off, len }) => {
            rep.class("agree:accept");
            if gt != ty {
                rep.violation(&format!("wrong-type:{}", dclass), || format!("decode_packet({}) reports type {:#04x}, the packet's type is {:#04x}", hex(x), gt, ty), case);
            } else if *off != *a || off.wrapping_add(*len) != *b {
                rep.violation(
                    &format!("payload-range:{}", dclass),
                    || format!("decode_packet({}) payload = input[{}..{}], the bytes between message header and PEC are input[{}..{}]", hex(x), off, off.wrapping_add(*len), a, b),
                    case,
                );
            }
        }
        (RefOut::Accept { .. }, DecOut::Err { mt, ek }) => {
            rep.violation(&format!("wellformed-rejected:{}:{}", dclass, got.class()), || format!("well-formed packet {} rejected with (type {:#04x}, {})", hex(x), mt, ek.name()), case);
        }
        (RefOut::Reject(t), DecOut::Ok { .. }) => {
            rep.violation(&format!("malformed-accepted:{}", dclass), || format!("decode_packet({}) = {} but the input is not well-formed: {:?}", hex(x), got.brief(), t), case);
        }
        (RefOut::Reject(_), DecOut::Err { ek: EK::Other, .. }) => rep.class("unjudged:error-variant-unknown-to-the-harness"),
        (RefOut::Reject(t), DecOut::Err { mt, ek }) => {
            if truthful(*mt, ek, t) {
                rep.class(&format!("agree:reject:{}", got.class()));
            } else {
                rep.violation(
                    &format!("untruthful-error:{}:{}", dclass, got.class()),
                    || format!("decode_packet({}) = (type {:#04x}, {}) but that condition does not hold of the input; true conditions: {:?}", hex(x), mt, ek.name(), t),
                    case,
                );
            }
        }
        (RefOut::OutOfClaim(_), _) => {}
    }
    if rep.want_sample() && x.len() >= 12 {
        rep.sample(|| J::obj(vec![("input", J::s(hex(x))), ("reference", J::s(format!("{:?}", r))), ("decode_packet", J::s(got.brief()))]));
    }
}

fn run(cfg: &RunCfg) -> Report {
    let mut rep = Report::new();
    let small = cfg.is_small();
    let plan = RxPlan {
        field_sweep: !small,
        cmd_len_max: if small { 0 } else { cfg.pick(24, 48) as usize },
        truncations: !small,
        lengths: !small,
        random: if small { 300_000 } else { cfg.pick(6_000_000, 120_000_000) },
    };
    super::c01::with_receivers(cfg.seed ^ 0x99, |rx| {
        let sender_cfg = CtxCfg { addr: 0xFF, types: vec![], vendors: vec![(1, 7, 7)] };
        with_ctx(&sender_cfg, |d| {
            let ctxs: Vec<&MCTPSMBusContext> = vec![rx[0].1, rx[1].1, rx[2].1, &*d];
            for_each_input(cfg, "c09", &plan, &mut |x, _| check(&ctxs, x, &mut rep));
        })
    });
    rep
}

fn finish(rep: &mut Report, cfg: &RunCfg) {
    if cfg.is_small() {
        return;
    }
    floor(rep, cfg, 100_000);
    for c in ["judged:must-accept", "judged:must-reject:header-unsupported", "judged:must-reject:pec-wrong", "judged:must-reject:length-wrong", "judged:must-reject:completion-code-1-5", "judged:must-reject:completion-code-6-255"] {
        if !rep.classes.contains_key(c) {
            rep.inconclusive.push(format!("outcome class '{}' never observed", c));
        }
    }
}

fn replay(case: &str, rep: &mut Report) -> Result<(), String> {
    let x = unhex(case).ok_or("bad hex")?;
    super::c01::with_receivers(1 ^ 0x99, |rx| {
        let sender_cfg = CtxCfg { addr: 0xFF, types: vec![], vendors: vec![(1, 7, 7)] };
        with_ctx(&sender_cfg, |d| {
            let ctxs: Vec<&MCTPSMBusContext> = vec![rx[0].1, rx[1].1, rx[2].1, &*d];
            check(&ctxs, &x, rep);
        })
    });
    Ok(())
}
