//! Minimal JSON value + writer (the harness uses no crates besides libmctp).

use std::collections::BTreeMap;

#[derive(Clone, Debug)]
pub enum J {
    Null,
    Bool(bool),
    Int(i128),
    Num(f64),
    Str(String),
    Arr(Vec<J>),
    Obj(Vec<(String, J)>),
}

impl J {
    pub fn s(x: impl Into<String>) -> J {
        J::Str(x.into())
    }
    pub fn i(x: impl Into<i128>) -> J {
        J::Int(x.into())
    }
    pub fn u(x: u64) -> J {
        J::Int(x as i128)
    }
    pub fn obj(kv: Vec<(&str, J)>) -> J {
        J::Obj(kv.into_iter().map(|(k, v)| (k.to_string(), v)).collect())
    }
    pub fn map_u64(m: &BTreeMap<String, u64>) -> J {
        J::Obj(m.iter().map(|(k, v)| (k.clone(), J::u(*v))).collect())
    }
    pub fn arr_str(v: &[String]) -> J {
        J::Arr(v.iter().map(|s| J::Str(s.clone())).collect())
    }
    pub fn write(&self, out: &mut String, indent: usize) {
        match self {
            J::Null => out.push_str("null"),
            J::Bool(b) => out.push_str(if *b { "true" } else { "false" }),
            J::Int(i) => out.push_str(&i.to_string()),
            J::Num(f) => {
                if f.is_finite() {
                    out.push_str(&format!("{:.3}", f))
                } else {
                    out.push_str("0")
                }
            }
            J::Str(s) => esc(s, out),
            J::Arr(a) => {
                if a.is_empty() {
                    out.push_str("[]");
                    return;
                }
                out.push('[');
                for (i, v) in a.iter().enumerate() {
                    if i > 0 {
                        out.push(',');
                    }
                    nl(out, indent + 1);
                    v.write(out, indent + 1);
                }
                nl(out, indent);
                out.push(']');
            }
            J::Obj(o) => {
                if o.is_empty() {
                    out.push_str("{}");
                    return;
                }
                out.push('{');
                for (i, (k, v)) in o.iter().enumerate() {
                    if i > 0 {
                        out.push(',');
                    }
                    nl(out, indent + 1);
                    esc(k, out);
                    out.push_str(": ");
                    v.write(out, indent + 1);
                }
                nl(out, indent);
                out.push('}');
            }
        }
    }
    /// Single-line rendering (for JSONL traces).
    pub fn compact(&self) -> String {
        let mut s = String::new();
        self.write_compact(&mut s);
        s
    }
    fn write_compact(&self, out: &mut String) {
        match self {
            J::Arr(a) => {
                out.push('[');
                for (i, v) in a.iter().enumerate() {
                    if i > 0 {
                        out.push(',');
                    }
                    v.write_compact(out);
                }
                out.push(']');
            }
            J::Obj(o) => {
                out.push('{');
                for (i, (k, v)) in o.iter().enumerate() {
                    if i > 0 {
                        out.push(',');
                    }
                    esc(k, out);
                    out.push(':');
                    v.write_compact(out);
                }
                out.push('}');
            }
            other => other.write(out, 0),
        }
    }
    pub fn pretty(&self) -> String {
        let mut s = String::new();
        self.write(&mut s, 0);
        s.push('\n');
        s
    }
}

fn nl(out: &mut String, indent: usize) {
    out.push('\n');
    for _ in 0..indent {
        out.push(' ');
    }
}

fn esc(s: &str, out: &mut String) {
    out.push('"');
    for c in s.chars() {
        match c {
            '"' => out.push_str("\\\""),
            '\\' => out.push_str("\\\\"),
            '\n' => out.push_str("\\n"),
            '\r' => out.push_str("\\r"),
            '\t' => out.push_str("\\t"),
            c if (c as u32) < 0x20 => out.push_str(&format!("\\u{:04x}", c as u32)),
            c => out.push(c),
        }
    }
    out.push('"');
}

pub fn hex(b: &[u8]) -> String {
    let mut s = String::with_capacity(b.len() * 2);
    for x in b {
        s.push_str(&format!("{:02x}", x));
    }
    s
}

pub fn unhex(s: &str) -> Option<Vec<u8>> {
    let s = s.trim();
    if s.len() % 2 != 0 {
        return None;
    }
    let mut v = Vec::with_capacity(s.len() / 2);
    let b = s.as_bytes();
    for i in (0..b.len()).step_by(2) {
        let h = (b[i] as char).to_digit(16)?;
        let l = (b[i + 1] as char).to_digit(16)?;
        v.push((h * 16 + l) as u8);
    }
    Some(v)
}
