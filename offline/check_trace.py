#!/usr/bin/env python3
"""Offline checker over recorded event logs (C02, C13, C14, C15).

A second, independent implementation of the history oracles: it never calls the library, it
replays the *model only* over the JSONL log the harness recorded at the client boundary and must
reach the same verdict as the online monitor.

usage: check_trace.py <property id> <trace.jsonl> <evidence.json>
exit 0: every logged event agrees with the model; 1: VIOLATION (with the offending log line);
2: inconclusive (empty / unreadable log).
"""
import json
import sys

VERSION = [0x01, 0xF1, 0xF3, 0xF1, 0x00]
TYPES = {0x00, 0x05, 0x06, 0x7E, 0x7F}
REQ_LEN = {1: 2, 4: 1, 6: 1, 7: 1, 8: 3}
RESP_LEN = {1: 3, 3: 16, 4: 5}


def crc8(data):
    crc = 0
    for b in data:
        crc ^= b
        for _ in range(8):
            crc = ((crc << 1) ^ 0x07) & 0xFF if crc & 0x80 else (crc << 1) & 0xFF
    return crc


assert crc8(b"123456789") == 0xF4


def pec_ok(x):
    return len(x) >= 1 and crc8(x[:-1]) == x[-1]


def accepted_request(x):
    """(cmd, data) if x is a control request the decoder must accept, 'maybe' if the property says
    nothing definite (short / out-of-claim), else None."""
    n = len(x)
    if n < 10:
        return None
    if x[4] != 0x01 or (x[8] & 0x80) or (x[8] & 0x7F) not in TYPES:
        return None
    if x[8] != 0x00:
        return None
    if not (x[9] & 0x80):
        return None
    if n < 12:
        return "maybe"
    if not pec_ok(x):
        return None
    cmd = x[10]
    data = x[11:n - 1]
    if cmd in REQ_LEN and REQ_LEN[cmd] != len(data):
        return None
    return (cmd, bytes(data))


class Model:
    def __init__(self, cfg):
        self.addr = cfg["addr"]
        self.types = bytes.fromhex(cfg["types"])
        self.vendors = cfg["vendors"]
        self.req = 0
        self.resp = 0
        self.uuid = bytes(16)

    def vendor_field(self, i):
        fmt, data, num = self.vendors[i]
        if fmt == 0:
            idb = [(data >> 8) & 0xFF, data & 0xFF]
        else:
            idb = [(data >> 24) & 0xFF, (data >> 16) & 0xFF, (data >> 8) & 0xFF, data & 0xFF]
        return bytes([fmt] + idb + [(num >> 8) & 0xFF, num & 0xFF])

    def process(self, x):
        """returns ('silent',) | ('unspec',) | ('resync',) | ('respond'|'mayrespond', cmd, pattern, exact, what)"""
        complete = len(x) > 7 and (x[7] & 0xC8) == 0xC8   # SOM, EOM, TO: a whole request that owns its tag
        before = (self.req, self.resp)
        r = self.process_complete(x)
        if r[0] == "respond" and not complete:
            if r[4] == "set-eid-accepted":
                self.req, self.resp = before
                return ("resync",)
            return ("mayrespond",) + r[1:]
        return r

    def process_complete(self, x):
        r = accepted_request(x)
        if r is None:
            return ("silent",)
        if r == "maybe":
            return ("unspec",)
        cmd, data = r
        if cmd == 1:
            op, eid = data[0], data[1]
            if op & 0xFC:
                # reserved operation bits set: Set/Force by the low two bits, or none of the four
                # operations - not fixed by C13; adopt what the context reports
                return ("resync",)
            if op in (0, 1) and eid in (0x00, 0xFF):
                # outside the 0x01-0xFE quantifier of C12/C13: adopt what the context reports
                return ("resync",)
            if op in (0, 1):
                self.req = eid
                self.resp = eid
                return ("respond", 1, [0, None, eid, None], True, "set-eid-accepted")
            if op == 3:
                return ("respond", 1, [2], False, "set-discovered-flag")
            return ("unspec",)
        if cmd in (2, 3, 5) and len(data) != 0:
            return ("unspec",)   # these commands take no request data; the answer is pinned by no property
        if cmd == 2:
            return ("respond", 2, [0, self.resp, None, None], False, "get-eid")
        if cmd == 3:
            return ("respond", 3, [0] + list(self.uuid), True, "get-uuid")
        if cmd == 4:
            return ("respond", 4, [0] + VERSION, True, "get-version")
        if cmd == 5:
            return ("respond", 5, [0, len(self.types)] + list(self.types), True, "get-types")
        if cmd == 6:
            i = data[0]
            n = len(self.vendors)
            if i < n:
                nxt = 0xFF if i + 1 == n else i + 1
                return ("respond", 6, [0, nxt] + list(self.vendor_field(i)), True, "get-vendor")
            return ("unspec",)
        return ("unspec",)


OWNED = {
    "C13": {"eid-cells", "set-eid-accepted", "set-discovered-flag", "get-eid", "no-response", "wrong-command", "malformed-response"},
    "C14": {"get-vendor", "no-response", "wrong-command", "malformed-response"},
    "C15": {"get-uuid", "get-version", "get-types", "no-response", "wrong-command", "malformed-response"},
}
CMD_OF = {"C13": {1, 2}, "C14": {6}, "C15": {3, 4, 5}}
# commands for which an accepted request must be answered at all
MUST_ANSWER = {"C13": {1}, "C14": {6}, "C15": {3, 4, 5}}


def check_model_trace(prop, events):
    owned = OWNED[prop]
    models = {}
    dead = set()
    stats = {"histories": 0, "steps": 0, "responses_checked": 0, "eid_checks": 0}
    problems = []
    for ln, ev in events:
        h = ev["h"]
        if ev["ev"] == "start":
            models[h] = [Model(c) for c in ev["cfgs"]]
            stats["histories"] += 1
            continue
        if h in dead or h not in models:
            continue
        m = models[h][ev["c"]]
        stats["steps"] += 1
        op = ev["op"]
        exp = None
        if op == "P":
            exp = m.process(bytes.fromhex(ev["in"]))
        elif op == "A":
            m.req = int(ev["in"], 16)
        elif op == "B":
            m.resp = int(ev["in"], 16)
        if op in ("A", "B"):
            # whether a store through one half is visible through the other is not fixed by C13
            v = int(ev["in"], 16)
            if v in (0x00, 0xFF):
                # outside C13's accessor quantifier (0x01-0xFE): adopt what the context reports
                m.req, m.resp = ev["er"], ev["es"]
            elif (ev["er"], ev["es"]) == (v, v):
                m.req, m.resp = v, v
        elif op == "U":
            m.uuid = bytes.fromhex(ev["in"])
        if exp and exp[0] == "resync":
            m.req, m.resp = ev["er"], ev["es"]
        found = []
        if exp and exp[0] == "mayrespond":
            # answer optional: judged like a response if there is one, ignored if there is none
            exp = ("respond",) + exp[1:] if ev["resp"] is not None else ("unspec",)
        exp_cmd = exp[1] if exp and exp[0] == "respond" else None
        stats["eid_checks"] += 1
        if (ev["er"], ev["es"]) != (m.req, m.resp):
            found.append(("eid-cells", "accessors (%#x,%#x) vs model (%#x,%#x)" % (ev["er"], ev["es"], m.req, m.resp)))
        if exp and exp[0] == "respond":
            _, cmd, pat, exact, what = exp
            if cmd in CMD_OF[prop]:
                stats["responses_checked"] += 1
            resp = ev["resp"]
            if resp is None:
                found.append(("no-response", "no response for command %#x" % cmd))
            else:
                r = bytes.fromhex(resp)
                # PEC / byte count of responses are judged by C12, C03, C04 - not by the content monitors
                if len(r) < 13 or r[8] != 0:
                    found.append(("malformed-response", resp))
                elif r[10] != cmd:
                    found.append(("wrong-command", resp))
                else:
                    data = r[11:-1]
                    ok = len(data) >= len(pat) and (not exact or len(data) == len(pat)) and all(p is None or p == d for p, d in zip(pat, data))
                    if ok and what == "set-eid-accepted" and (data[1] >> 4) & 3:
                        ok = False
                    if not ok:
                        found.append((what, "data %s vs pattern %s" % (data.hex(), pat)))
        found = [f for f in found if f[0] in owned
                 and (f[0] == "eid-cells" or (exp_cmd in CMD_OF[prop] and (f[0] != "no-response" or exp_cmd in MUST_ANSWER[prop])))]
        if found:
            problems.append((ln, found[0][0], found[0][1]))
            dead.add(h)  # model and context have diverged
    return stats, problems


def check_c02(events):
    prev = {}
    stats = {"histories": 0, "steps": 0, "bad_pec_events": 0, "ok_events_with_good_pec": 0}
    problems = []
    for ln, ev in events:
        h = ev["h"]
        if ev["ev"] == "start":
            stats["histories"] += 1
            prev.pop(h, None)
            continue
        stats["steps"] += 1
        if ev["op"] not in ("P", "D"):
            # accessor writes / set_uuid / get_length: not packets, they may change the EID cells
            prev[h] = (ev["er"], ev["es"])
            continue
        x = bytes.fromhex(ev["in"])
        good = pec_ok(x)
        accepted = ev["res"].startswith("ok")
        if accepted and not good:
            problems.append((ln, "bad-pec-accepted", ev["in"]))
        if accepted and good:
            stats["ok_events_with_good_pec"] += 1
        if not good:
            stats["bad_pec_events"] += 1
            if ev["resp"] is not None or not ev["clean"]:
                problems.append((ln, "bad-pec-response-bytes", ev["in"]))
            if h in prev and prev[h] != (ev["er"], ev["es"]):
                problems.append((ln, "bad-pec-changed-eid", "%s: %s -> %s" % (ev["in"], prev[h], (ev["er"], ev["es"]))))
        prev[h] = (ev["er"], ev["es"])
    return stats, problems


def main():
    prop, trace, evidence = sys.argv[1], sys.argv[2], sys.argv[3]
    events = []
    try:
        with open(trace) as f:
            for ln, line in enumerate(f, 1):
                line = line.strip()
                if line:
                    events.append((ln, json.loads(line)))
    except (OSError, ValueError) as e:
        print("INCONCLUSIVE property=%s offline checker cannot read %s: %s" % (prop, trace, e))
        return 2
    if not events:
        print("INCONCLUSIVE property=%s offline checker: empty event log" % prop)
        return 2
    if prop == "C02":
        stats, problems = check_c02(events)
    elif prop in OWNED:
        stats, problems = check_model_trace(prop, events)
    else:
        return 0
    stats["events"] = len(events)
    stats["disagreements"] = len(problems)
    stats["checker"] = "offline/check_trace.py (independent Python model; never calls the library)"
    try:
        with open(evidence) as f:
            ev = json.load(f)
        ev["coverage"]["offline_checker"] = stats
        if problems:
            ev["violations"] = ev.get("violations", 0) + len(problems)
            ev["coverage"]["verdict"] = "violated (offline trace checker)"
        with open(evidence, "w") as f:
            json.dump(ev, f, indent=1)
            f.write("\n")
    except (OSError, ValueError, KeyError) as e:
        print("INCONCLUSIVE property=%s offline checker cannot update %s: %s" % (prop, evidence, e))
        return 2
    if problems:
        for ln, key, detail in problems[:5]:
            print("VIOLATION property=%s replay=%s" % (prop, trace))
            print("  key=offline:%s line=%d :: %s" % (key, ln, detail))
        return 1
    print("%s offline trace check: %d events, %s -> agrees with the online monitor" % (prop, len(events), ", ".join("%s=%s" % kv for kv in stats.items() if kv[0] not in ("events", "checker"))))
    return 0


if __name__ == "__main__":
    sys.exit(main())
