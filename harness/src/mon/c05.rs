//! C05 — MCTP transport header and message-type byte of encoded packets.

use super::enc_common::*;
use super::*;
use crate::catalog::*;
use crate::encwl::*;
use crate::rng::hash_bytes;

pub fn mon() -> Mon {
    Mon {
        id: "C05",
        title: "MCTP transport header and message-type byte of encoded packets",
        run,
        finish,
        replay,
        rule: "Encoder catalogue (plus the responses process_packet encodes for forged requests) with the destination and the context's own address each swept through all 256 byte values on every call form, 256x256 (own, destination) pairs on selected forms (all forms in the thorough tier), every message type the API can emit, random products. Each Ok output is checked literally: b4 == 0x01, b5 == destination, b6 == own address, b7 == 0xC8 for requests/vendor/SPDM and (b7 & 0xF0) == 0xC0 for control responses, b8 == type code of the API used (0x00, 0x7E, 0x7F, 0x05, 0x06). Non-trivial = a packet was judged; distinct = distinct (form, bytes 4..8).",
        assumptions: &[
            "tag-owner and message tag of control responses are left open by the statement and are not judged",
            "the trait-level control generator is judged like a response (SOM/EOM/sequence only) because the caller supplies the Rq bit",
        ],
        children: rel_child_quarter,
    }
}

fn plan(cfg: &RunCfg) -> EncPlan {
    let mut p = EncPlan::new(&ALL_FORMS);
    p.addr7 = false;
    p.len_max = 255;
    p.max_body = 249;
    p.random_per_form = cfg.pick(12_000, 1_000_000);
    p.param_sweep_reps = cfg.pick(1, 10) as u32;
    p.addr_sweep_reps = cfg.pick(2, 40) as u32;
    p.pair_forms = if cfg.thorough() {
        ALL_FORMS.to_vec()
    } else {
        vec![Form::SetEid, Form::QueryHop, Form::VendorDefined, Form::RGetEid, Form::RGetVendor, Form::GenSpdmReq, Form::GenIanaResp]
    };
    if cfg.is_small() {
        p.pair_forms.clear();
        p.len_max = 0;
    }
    p
}

pub fn check(c: &Call, rep: &mut Report) {
    let exp = expected(c);
    let obs = observe(c, 0xC05);
    rep.eval();
    let form = c.form.name();
    let pkt = match note_outcome(rep, c, &obs) {
        Some(p) => p,
        None => return,
    };
    let mut k = [0u8; 6];
    k[..5].copy_from_slice(&pkt[4..9]);
    k[5] = c.form as u8;
    rep.nontrivial(hash_bytes(5, &k));
    rep.class(&format!("type-byte:{:#04x}", pkt[8]));
    let mut bad = |what: &str, detail: String| {
        rep.violation(&format!("{}:{}", form, what), || format!("{}; {}", detail, obs.brief()), || c.encode());
    };
    if pkt[4] != 0x01 {
        bad("b4-version", format!("byte 4 {:#04x} != 0x01 (reserved 0, header version 1)", pkt[4]));
    }
    if pkt[5] != c.dest {
        bad("b5-dest-eid", format!("byte 5 {:#04x} != destination {:#04x}", pkt[5], c.dest));
    }
    if pkt[6] != c.own {
        bad("b6-source-eid", format!("byte 6 {:#04x} != own address {:#04x}", pkt[6], c.own));
    }
    if exp.flags_exact {
        if pkt[7] != 0xC8 {
            bad("b7-flags", format!("byte 7 {:#04x} != 0xC8 (SOM=1 EOM=1 seq=0 TO=1 tag=0)", pkt[7]));
        }
    } else if pkt[7] & 0xF0 != 0xC0 {
        bad("b7-flags", format!("byte 7 {:#04x}: SOM/EOM/seq != 1/1/0", pkt[7]));
    }
    if exp.outcome == Outcome::Ok && pkt[8] != exp.ty {
        bad("b8-type", format!("byte 8 {:#04x} != IC=0 | type {:#04x}", pkt[8], exp.ty));
    }
    if rep.want_sample() {
        rep.sample(|| sample_json(c, &obs));
    }
}

fn run(cfg: &RunCfg) -> Report {
    let mut rep = Report::new();
    let p = plan(cfg);
    for_each_call(cfg, "c05", &p, &mut |c, _| check(c, &mut rep));
    let n = if cfg.is_small() { 200 } else { cfg.pick(200_000, 4_000_000) };
    let mut rrep = Report::new();
    for_each_response(cfg, "c05-responder", n, &mut |req, resp, who, rep| check_response(req, resp, who, rep), &mut rrep);
    rep.merge(rrep);
    rep
}

/// Transport header of the packets process_packet encodes (that the destination EID is the
/// requester's is C12's claim and is not judged here).
pub fn check_response(req: &[u8], resp: &[u8], who: &crate::libapi::CtxCfg, rep: &mut Report) {
    rep.eval();
    rep.class("responder:response");
    let mut k = [0u8; 6];
    k[..5].copy_from_slice(&resp[4..9]);
    k[5] = 0xEE;
    rep.nontrivial(hash_bytes(5, &k));
    let mut bad = |what: &str, detail: String| {
        rep.violation(
            &format!("process_packet-response:{}", what),
            || format!("{}; request {} -> response {} (responder {:#04x})", detail, crate::json::hex(req), crate::json::hex(resp), who.addr),
            || format!("resp|{}|{}", who.encode(), crate::json::hex(req)),
        );
    };
    if resp[4] != 0x01 {
        bad("b4-version", format!("byte 4 {:#04x} != 0x01", resp[4]));
    }
    if resp[6] != who.addr {
        bad("b6-source-eid", format!("byte 6 {:#04x} != own address {:#04x}", resp[6], who.addr));
    }
    if resp[7] & 0xF0 != 0xC0 {
        bad("b7-flags", format!("byte 7 {:#04x}: SOM/EOM/seq != 1/1/0", resp[7]));
    }
    if resp[8] != 0x00 {
        bad("b8-type", format!("byte 8 {:#04x} != control type", resp[8]));
    }
}

fn finish(rep: &mut Report, cfg: &RunCfg) {
    floor(rep, cfg, 50_000);
    if !cfg.is_small() {
        for t in ["type-byte:0x00", "type-byte:0x05", "type-byte:0x06", "type-byte:0x7e", "type-byte:0x7f"] {
            if !rep.classes.contains_key(t) {
                rep.inconclusive.push(format!("no packet with {} was observed", t));
            }
        }
    }
}

fn replay(case: &str, rep: &mut Report) -> Result<(), String> {
    if let Some(rest) = case.strip_prefix("resp|") {
        return replay_response(rest, rep, &mut |q, r, w, rep| check_response(q, r, w, rep));
    }
    let c = Call::decode(case).ok_or("cannot parse case")?;
    check(&c, rep);
    Ok(())
}
