pub mod crc;
pub mod endpoint;
pub mod forge;
pub mod refdec;
pub mod wire;
