//! C02 — a packet whose PEC does not match is never accepted or acted upon.

use super::hist::*;
use super::*;
use crate::corpus::*;
use crate::json::{hex, J};
use crate::libapi::*;
use crate::refmodel::crc::crc8;
use crate::refmodel::endpoint::*;
use crate::rng::{hash_bytes, Rng};

pub fn mon() -> Mon {
    Mon {
        id: "C02",
        title: "A packet whose PEC does not match is never accepted or acted upon",
        run,
        finish,
        replay,
        rule: "Corruption workload against decode_packet and process_packet on a context A while a twin context B (identical configuration) receives the same history minus the bad packets: (a) every base packet (all library encoders, forged requests/responses for every command, all message types, maximum-length packets) x all 255 wrong PEC values; (b) every burst of <= 8 consecutive bits (all 128 patterns with the leading bit set) at every bit offset of a set of base packets covering every type/command/direction (40 packets quick, all in thorough); (c) random multi-bit damage; (d) random strings of every length with plausible headers; interleaved with valid traffic (assignments, queries, vendor messages) that goes to both A and B; before a damaged packet the contexts often see its intact original first - probed with get_length, decoded, or *processed* (a retransmission hit by a bit error right after the answered original). Oracle (independent CRC-8): last byte != CRC of the rest => neither call returns Ok, the 64-300 byte poisoned response buffer is byte-identical afterwards, both EID accessors are unchanged, and every later common operation yields identical results and response bytes on A and B; conversely whenever either call returns Ok the PEC matches. The generator self-checks that every burst really changes the CRC. A sample is logged as JSONL and re-checked in Python. Non-trivial = input with a wrong PEC whose header is otherwise supported (it reaches a PEC comparison); distinct = distinct corrupted byte strings.",
        assumptions: &["rejection for any other reason is fine; a panic counts as 'not accepted' (it is C10's event) but the no-state-change checks still apply after it"],
        children: rel_child_quarter,
    }
}

struct Pair<'a, 'm> {
    a: &'a mut libmctp::smbus::MCTPSMBusContext<'m>,
    b: &'a mut libmctp::smbus::MCTPSMBusContext<'m>,
    cfgc: &'a CtxCfg,
    /// replayable log: (goes to both?, op)
    log: Vec<(bool, Op)>,
    step: u64,
    trace: Option<u64>,
}

fn encode_log(cfgc: &CtxCfg, log: &[(bool, Op)]) -> String {
    let o: Vec<String> = log.iter().map(|(both, op)| format!("{}{}", if *both { "g" } else { "x" }, op.encode())).collect();
    format!("{}#{}", cfgc.encode(), o.join(","))
}

fn tr(rep: &mut Report, p: &Pair, op: &Op, obs: &Obs, both: bool) {
    if let Some(id) = p.trace {
        let (k, x) = match op {
            Op::Process(x) => ("P", hex(x)),
            Op::Decode(x) => ("D", hex(x)),
            Op::GetLength(x) => ("L", hex(x)),
            Op::AccReq(v) => ("A", format!("{:02x}", v)),
            Op::AccResp(v) => ("B", format!("{:02x}", v)),
            Op::SetUuid(u) => ("U", hex(u)),
        };
        let res = match (&obs.proc, &obs.dec) {
            (Some(pr), _) => pr.class(),
            (_, Some(d)) => d.class(),
            _ => "-".into(),
        };
        rep.trace_event(&J::obj(vec![
            ("ev", J::s("step")),
            ("h", J::u(id)),
            ("c", J::u(0)),
            ("op", J::s(k)),
            ("in", J::s(x)),
            ("both", J::Bool(both)),
            ("res", J::s(res)),
            ("resp", obs.resp.as_ref().map(|r| J::s(hex(r))).unwrap_or(J::Null)),
            ("clean", J::Bool(obs.rb_clean)),
            ("er", J::u(obs.eids.0 as u64)),
            ("es", J::u(obs.eids.1 as u64)),
        ]));
    }
}

/// Feed a packet with a wrong PEC to A only.
fn bad(p: &mut Pair, x: &[u8], kind: &'static str, rep: &mut Report) {
    bad_primed(p, x, kind, None, rep)
}

/// `prime`: a related *valid* packet. Before each of the two calls on the bad bytes the context
/// (and its twin) may first see a harmless read-only call on the valid packet (get_length on its
/// header, a decode) - what a receiver does while a later copy of the packet gets damaged.
fn bad_primed(p: &mut Pair, x: &[u8], kind: &'static str, prime: Option<&[u8]>, rep: &mut Report) {
    debug_assert!(!pec_ok(x));
    let f = crate::refmodel::refdec::facts(x);
    let cls = crate::classify::decode_class_f(&f);
    for api in 0..2 {
        if let Some(v) = prime {
            match (p.step + api) % 6 {
                0 => good(p, &Op::GetLength(v.to_vec()), rep),
                1 => good(p, &Op::GetLength(v[..3.min(v.len())].to_vec()), rep),
                2 => good(p, &Op::GetLength(x.to_vec()), rep),
                3 => good(p, &Op::Decode(v.to_vec()), rep),
                // a retransmission hit by a bit error: the intact packet was *processed* (answered,
                // acted upon - on both contexts) and the damaged copy arrives right after it
                _ => good(p, &Op::Process(v.to_vec()), rep),
            }
        }
        let before = eids(p.a);
        let op = if api == 0 { Op::Decode(x.to_vec()) } else { Op::Process(x.to_vec()) };
        p.step += 1;
        let obs = exec(p.a, &op, 64 + (p.step % 237) as usize, p.step ^ 0xC02);
        rep.eval();
        p.log.push((false, op.clone()));
        tr(rep, p, &op, &obs, false);
        let accepted = obs.dec.as_ref().map(|d| d.is_ok()).unwrap_or(false) || obs.proc.as_ref().map(|d| d.is_ok()).unwrap_or(false);
        let case = || encode_log(p.cfgc, &p.log);
        if accepted {
            rep.violation(
                &format!("bad-pec-accepted:{}:{}:{}", if api == 0 { "decode_packet" } else { "process_packet" }, cls, kind),
                || format!("{} accepted {} whose last byte {:#04x} != CRC-8 {:#04x} of the rest ({})", op.kind(), hex(x), x[x.len() - 1], crc8(&x[..x.len() - 1]), kind),
                case,
            );
        }
        if obs.resp.is_some() || !obs.rb_clean {
            rep.violation(&format!("bad-pec-response-bytes:{}", cls), || format!("processing {} (wrong PEC) wrote to the response buffer", hex(x)), case);
        }
        if obs.eids != before {
            rep.violation(&format!("bad-pec-changed-eid:{}", cls), || format!("{} on {} (wrong PEC) changed the EIDs from {:?} to {:?}", op.kind(), hex(x), before, obs.eids), case);
        }
    }
    if rep.want_sample() && f.hdr_ok && x.len() < 40 {
        let d = decode(p.a, x);
        rep.sample(|| {
            J::obj(vec![
                ("input_with_wrong_pec", J::s(hex(x))),
                ("corruption", J::s(kind)),
                ("pec_byte", J::s(format!("{:#04x}", x[x.len() - 1]))),
                ("reference_crc8", J::s(format!("{:#04x}", crc8(&x[..x.len() - 1])))),
                ("decode_packet", J::s(d.brief())),
                ("eids_after", J::s(format!("{:?}", eids(p.a)))),
            ])
        });
    }
    if f.hdr_ok {
        rep.nontrivial(hash_bytes(2, x));
        rep.class(&format!("bad-pec:{}", cls));
    } else {
        rep.class("bad-pec:header-unsupported");
    }
    rep.class(&format!("kind:{}", kind));
}

/// Feed a valid-traffic operation to both contexts; results must be identical.
fn good(p: &mut Pair, op: &Op, rep: &mut Report) {
    p.step += 1;
    let rblen = 64 + (p.step % 237) as usize;
    let oa = exec(p.a, op, rblen, p.step);
    let ob = exec(p.b, op, rblen, p.step);
    rep.eval();
    p.log.push((true, op.clone()));
    tr(rep, p, op, &oa, true);
    let same = oa.proc == ob.proc && oa.dec == ob.dec && oa.resp == ob.resp && oa.eids == ob.eids && oa.rb_clean == ob.rb_clean;
    if !same {
        let case = || encode_log(p.cfgc, &p.log);
        rep.violation(
            "later-output-differs-from-twin",
            || {
                format!(
                    "after bad-PEC traffic, {} gives {:?}/{:?} eids {:?} on the context but {:?}/{:?} eids {:?} on its twin that never saw the bad packets",
                    op.encode(),
                    oa.proc.as_ref().map(|x| x.brief()),
                    oa.resp.as_ref().map(|r| hex(r)),
                    oa.eids,
                    ob.proc.as_ref().map(|x| x.brief()),
                    ob.resp.as_ref().map(|r| hex(r)),
                    ob.eids
                )
            },
            case,
        );
    }
    // the "only for" direction on valid traffic
    if let Op::Process(x) | Op::Decode(x) = op {
        let ok = oa.proc.as_ref().map(|d| d.is_ok()).unwrap_or(false) || oa.dec.as_ref().map(|d| d.is_ok()).unwrap_or(false);
        if ok && !pec_ok(x) {
            let case = || encode_log(p.cfgc, &p.log);
            rep.violation("accepted-without-matching-pec", || format!("{} accepted {} although its PEC does not match", op.kind(), hex(x)), case);
        }
    }
}

const TRAFFIC: [(Letter, u32); 8] = [
    (Letter::SetEid, 5),
    (Letter::GetEid, 4),
    (Letter::Query, 6),
    (Letter::ResponsePacket, 2),
    (Letter::VendorMsg, 2),
    (Letter::Accessor, 1),
    (Letter::SetUuid, 1),
    (Letter::OtherRequest, 1),
];

fn probe(p: &mut Pair, rng: &mut Rng, m: &Model, rep: &mut Report) {
    let k = 1 + rng.below(3);
    for _ in 0..k {
        let l = pick_letter(rng, &TRAFFIC);
        let op = instantiate(l, rng, m);
        // valid traffic whose PEC happens to be wrong does not exist here, but garbage could be
        good(p, &op, rep);
    }
}

/// One session: a fresh context pair, a stream of corruptions of `base` interleaved with probes.
fn session(cfgc: &CtxCfg, rng: &mut Rng, rep: &mut Report, trace: Option<u64>, body: &mut dyn FnMut(&mut Pair, &mut Rng, &Model, &mut Report)) {
    let m = Model::new(cfgc);
    let cfgs = [cfgc.clone(), cfgc.clone()];
    with_contexts(&cfgs, |ctxs| {
        let (l, r) = ctxs.split_at_mut(1);
        let mut p = Pair { a: &mut l[0], b: &mut r[0], cfgc, log: Vec::new(), step: 0, trace };
        if let Some(id) = trace {
            rep.trace_event(&J::obj(vec![("ev", J::s("start")), ("h", J::u(id))]));
        }
        probe(&mut p, rng, &m, rep);
        body(&mut p, rng, &m, rep);
        probe(&mut p, rng, &m, rep);
    });
}

/// keep the replay log bounded: restart the log when it grows (state is carried by the contexts,
/// so a violation found later replays only approximately; sessions are short enough in practice)
const LOG_LIMIT: usize = 400;

fn run(cfg: &RunCfg) -> Report {
    let mut rep = Report::new();
    let mut rng = cfg.rng("c02");
    let ns = cfg.nshards as u64;
    let sh = cfg.shard as u64;
    let small = cfg.is_small();
    let bases = base_packets(cfg.seed);
    // generator self-check: every burst changes the reference CRC
    let mut idx = 0u64;
    let burst_bases: usize = if small { 1 } else if cfg.thorough() { bases.len() } else { 60 };
    for (bi, base) in bases.iter().enumerate() {
        idx += 1;
        if idx % ns != sh {
            continue;
        }
        if small && bi > 3 {
            break;
        }
        let c = CtxCfg::random(&mut rng, true);
        let tid = if sh == 0 && bi < 48 { Some(bi as u64) } else { None };
        session(&c, &mut rng, &mut rep, tid, &mut |p, rng, m, rep| {
            // (a) all 255 wrong PEC values
            let n = base.len();
            for d in 1..=255u8 {
                let mut x = base.clone();
                x[n - 1] ^= d;
                if d % 5 == 0 {
                    bad_primed(p, &x, "wrong-pec-value", Some(base), rep);
                } else {
                    bad(p, &x, "wrong-pec-value", rep);
                }
                if d % 64 == 0 {
                    probe(p, rng, m, rep);
                }
                if p.log.len() > LOG_LIMIT {
                    p.log.clear();
                }
            }
            // (a') the same packet dressed up with the IC bit and a plausible integrity trailer, PEC wrong
            for v in ic_trailer_variants(base) {
                for d in [0x01u8, 0x80, 0xFF] {
                    let mut x = v.clone();
                    let l = x.len();
                    x[l - 1] ^= d;
                    bad(p, &x, "ic-trailer-wrong-pec", rep);
                }
            }
            // (b) every burst of <= 8 bits at every bit offset
            if bi % 3 == 0 || bi < burst_bases {
                let nbits = n * 8;
                // long packets: all offsets in thorough, every offset near the ends + stride in quick
                for off in 0..nbits {
                    if !cfg.thorough() && n > 40 && off > 120 && off + 120 < nbits && off % 7 != 0 {
                        continue;
                    }
                    for pat in 0..128u8 {
                        let mut x = base.clone();
                        if !apply_burst(&mut x, off, 0x80 | pat) {
                            continue;
                        }
                        if pec_ok(&x) {
                            rep.inconclusive.push(format!("generator self-check failed: burst at bit {} pattern {:#x} left the reference CRC unchanged", off, 0x80 | pat));
                            continue;
                        }
                        if (off + pat as usize) % 3 == 0 {
                            bad_primed(p, &x, "burst<=8bits", Some(base), rep);
                        } else {
                            bad(p, &x, "burst<=8bits", rep);
                        }
                        if p.log.len() > LOG_LIMIT {
                            p.log.clear();
                        }
                    }
                    if off % 32 == 0 {
                        probe(p, rng, m, rep);
                    }
                }
            }
        });
    }
    // (c)/(d) random damage and random strings, short sessions (fully replayable logs)
    let nsess = if small { 4 } else { cfg.n(cfg.pick(40_000, 2_000_000)) / ns };
    for k in 0..nsess {
        let c = CtxCfg::random(&mut rng, true);
        let tid = if sh == 0 && k < 200 { Some(1000 + k) } else { None };
        session(&c, &mut rng, &mut rep, tid, &mut |p, rng, m, rep| {
            let steps = 5 + rng.below(40);
            for _ in 0..steps {
                match rng.below(10) {
                    0..=3 => {
                        let mut x = gen_valid(rng);
                        let k = 1 + rng.below(3);
                        for _ in 0..k {
                            mutate(rng, &mut x);
                        }
                        if !x.is_empty() && !pec_ok(&x) {
                            bad(p, &x, "random-damage", rep);
                        } else {
                            // still (or again) a consistent PEC: ordinary traffic for both
                            good(p, &Op::Process(x), rep);
                        }
                    }
                    4 | 5 => {
                        let n = 1 + rng.below(300) as usize;
                        let mut x = random_string(rng, n);
                        if pec_ok(&x) {
                            let l = x.len();
                            x[l - 1] ^= 1 + rng.below(255) as u8;
                        }
                        bad(p, &x, "random-string", rep);
                    }
                    6 => {
                        // corrupted assignment: the most damaging thing to act upon
                        if let Op::Process(x) = instantiate(Letter::SetEid, rng, m) {
                            let mut x = x;
                            let l = x.len();
                            if rng.chance(1, 2) {
                                x[l - 1] ^= 1 + rng.below(255) as u8;
                            } else {
                                let i = rng.below(l as u64 - 1) as usize;
                                x[i] ^= 1 << rng.below(8);
                            }
                            let orig = { let mut o = x.clone(); crate::refmodel::forge::fix_pec(&mut o); o };
                            bad_primed(p, &x, "corrupted-assignment", Some(&orig), rep);
                        }
                    }
                    _ => probe(p, rng, m, rep),
                }
            }
        });
    }
    rep
}

fn finish(rep: &mut Report, cfg: &RunCfg) {
    if cfg.is_small() {
        return;
    }
    floor(rep, cfg, 100_000);
    for c in ["bad-pec:pci", "bad-pec:iana", "bad-pec:spdm", "bad-pec:secured", "bad-pec:ctrl-req-cmd<=0x08", "bad-pec:ctrl-resp-success", "kind:wrong-pec-value", "kind:burst<=8bits", "kind:random-damage", "kind:random-string", "kind:corrupted-assignment"] {
        if !rep.classes.contains_key(c) {
            rep.inconclusive.push(format!("class '{}' never exercised", c));
        }
    }
}

fn replay(case: &str, rep: &mut Report) -> Result<(), String> {
    let (c, o) = case.split_once('#').ok_or("bad case")?;
    let cfgc = CtxCfg::decode(c).ok_or("bad cfg")?;
    let mut ops: Vec<(bool, Op)> = Vec::new();
    for t in o.split(',').filter(|t| !t.is_empty()) {
        let both = t.starts_with('g');
        ops.push((both, Op::decode(&t[1..]).ok_or("bad op")?));
    }
    let cfgs = [cfgc.clone(), cfgc.clone()];
    with_contexts(&cfgs, |ctxs| {
        let (l, r) = ctxs.split_at_mut(1);
        let mut p = Pair { a: &mut l[0], b: &mut r[0], cfgc: &cfgc, log: Vec::new(), step: 0, trace: None };
        let mut i = 0;
        while i < ops.len() {
            let (both, op) = &ops[i];
            if *both {
                good(&mut p, op, rep);
                i += 1;
            } else {
                // bad packets were logged as a decode+process pair on the same bytes
                if let Op::Decode(x) | Op::Process(x) = op {
                    if !pec_ok(x) {
                        bad(&mut p, x, "replayed", rep);
                    }
                }
                i += 1;
                if i < ops.len() && !ops[i].0 {
                    if let (Op::Process(y), Op::Decode(x)) = (&ops[i].1, op) {
                        if x == y {
                            i += 1;
                        }
                    }
                }
            }
        }
    });
    Ok(())
}
