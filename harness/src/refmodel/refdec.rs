//! Reference decoder, written from the C09 statement. Total function bytes -> verdict.

use super::crc::crc8;
use super::wire::*;

#[derive(Clone, Debug, PartialEq, Eq)]
pub enum RefOut {
    /// outside the C09 claim (byte-determined class name); only "never accepted unless the PEC is
    /// right" (C02) is demanded there
    OutOfClaim(&'static str),
    /// must be accepted, with message type `ty` and payload x[a..b]
    Accept { ty: u8, a: usize, b: usize },
    /// must be rejected; the fields say which error values would be truthful
    Reject(Truth),
}

#[derive(Clone, Debug, PartialEq, Eq, Default)]
pub struct Truth {
    /// header unsupported (version/reserved/IC/type): (Invalid, Unknown) is truthful
    pub hdr_bad: bool,
    /// message type of the packet if the header is supported
    pub ty: Option<u8>,
    /// PEC wrong
    pub pec_bad: bool,
    /// control message whose command has a fixed length in its direction and the length differs
    pub len_bad: bool,
    /// control response carrying completion code c != 0
    pub cc: Option<u8>,
    /// control response carrying a completion code 6-255, for which no `CompletionCode` exists
    pub cc_undefined: bool,
    /// header unsupported, but the type field (byte 8, low 7 bits) names a supported type: an error
    /// that reports *that* type is a true statement about the input too (C09 only says "Invalid only
    /// for an unsupported header", not "an unsupported header only as Invalid")
    pub claimed_ty: Option<u8>,
}

/// Byte-determined facts about an input (also used by classify.rs).
#[derive(Clone, Debug, Default)]
pub struct Facts {
    pub n: usize,
    pub ver_ok: bool,
    pub ic: bool,
    pub ty: u8,
    pub ty_ok: bool,
    pub hdr_ok: bool,
    pub pec_ok: bool,
    pub is_ctrl: bool,
    pub rq: bool,
    pub d: bool,
    pub iid: u8,
    pub cmd: u8,
    pub cc: u8,
    pub has_ctrl_hdr: bool,
    pub has_cc: bool,
}

pub fn facts(x: &[u8]) -> Facts {
    let n = x.len();
    let mut f = Facts { n, ..Default::default() };
    if n >= 1 {
        f.pec_ok = crc8(&x[..n - 1]) == x[n - 1];
    }
    if n >= 5 {
        f.ver_ok = x[4] == HDR_BYTE;
    }
    if n >= 9 {
        f.ic = x[8] & 0x80 != 0;
        f.ty = x[8] & 0x7F;
        f.ty_ok = type_supported(f.ty);
        f.hdr_ok = f.ver_ok && !f.ic && f.ty_ok;
        f.is_ctrl = f.hdr_ok && f.ty == TY_CONTROL;
    }
    if n >= 10 {
        f.rq = x[9] & 0x80 != 0;
        f.d = x[9] & 0x40 != 0;
        f.iid = x[9] & 0x1F;
    }
    if n >= 11 {
        f.cmd = x[10];
        f.has_ctrl_hdr = n >= 12; // two header bytes plus a PEC
    }
    if n >= 12 {
        f.cc = x[11];
        f.has_cc = n >= 13;
    }
    f
}

pub fn decide(x: &[u8]) -> RefOut {
    let f = facts(x);
    let n = f.n;
    if n < 10 {
        return RefOut::OutOfClaim("short<10");
    }
    if n > 259 {
        // C09 (and C10) quantify over byte strings "up to the SMBus maximum length": 255 counted bytes
        // plus address, command code, byte count and PEC
        return RefOut::OutOfClaim("longer-than-smbus-maximum");
    }
    if !f.hdr_ok {
        let claimed_ty = if f.ty_ok { Some(f.ty) } else { None };
        return RefOut::Reject(Truth { hdr_bad: true, ty: None, pec_bad: !f.pec_ok, len_bad: false, cc: None, cc_undefined: false, claimed_ty });
    }
    if f.ty != TY_CONTROL {
        if f.pec_ok {
            return RefOut::Accept { ty: f.ty, a: 9, b: n - 1 };
        }
        return RefOut::Reject(Truth { hdr_bad: false, ty: Some(f.ty), pec_bad: true, len_bad: false, cc: None, cc_undefined: false, claimed_ty: None });
    }
    // control
    if f.rq {
        if n < 12 {
            return RefOut::OutOfClaim("ctrl-req-short<12");
        }
        let datalen = n - 1 - 11;
        let len_bad = matches!(req_fixed_len(f.cmd), Some(l) if l != datalen);
        if f.pec_ok && !len_bad {
            return RefOut::Accept { ty: TY_CONTROL, a: 11, b: n - 1 };
        }
        RefOut::Reject(Truth { hdr_bad: false, ty: Some(TY_CONTROL), pec_bad: !f.pec_ok, len_bad, cc: None, cc_undefined: false, claimed_ty: None })
    } else {
        if n < 13 {
            return RefOut::OutOfClaim("ctrl-resp-short<13");
        }
        if f.cc >= 6 {
            // a completion code without a CompletionCode variant (the decoder used to panic here;
            // repaired by c0966df): not Success, so it must be rejected; no error value can carry
            // the code, so the condition-free ControlMessage(Unknown) is the truthful report
            return RefOut::Reject(Truth { hdr_bad: false, ty: Some(TY_CONTROL), pec_bad: !f.pec_ok, len_bad: false, cc: None, cc_undefined: true, claimed_ty: None });
        }
        if f.cc != 0 {
            return RefOut::Reject(Truth {
                hdr_bad: false,
                ty: Some(TY_CONTROL),
                pec_bad: !f.pec_ok,
                len_bad: false, // length of an unsuccessful response is not specified
                cc: Some(f.cc),
                cc_undefined: false,
                claimed_ty: None,
            });
        }
        if resp_len_outside_claim(f.cmd) {
            return RefOut::OutOfClaim("ctrl-resp-cmd-02/08/09");
        }
        let datalen = n - 1 - 12;
        let len_bad = matches!(resp_fixed_len(f.cmd), Some(l) if l != datalen);
        if f.pec_ok && !len_bad {
            return RefOut::Accept { ty: TY_CONTROL, a: 12, b: n - 1 };
        }
        RefOut::Reject(Truth { hdr_bad: false, ty: Some(TY_CONTROL), pec_bad: !f.pec_ok, len_bad, cc: None, cc_undefined: false, claimed_ty: None })
    }
}

/// Self-test: forge <-> reference decoder round trip on every type.
pub fn self_test() -> Result<(), String> {
    use super::forge::*;
    for &ty in SUPPORTED_TYPES.iter() {
        if ty == TY_CONTROL {
            continue;
        }
        let p = frame(0x10, 0x20, 0x10, 0x20, FLAGS_REQ, ty, &[1, 2, 3, 4, 5]);
        if decide(&p) != (RefOut::Accept { ty, a: 9, b: p.len() - 1 }) {
            return Err(format!("refdec rejects forged type {:#x}", ty));
        }
        let mut q = p.clone();
        let n = q.len();
        q[n - 1] ^= 0x01;
        match decide(&q) {
            RefOut::Reject(t) if t.pec_bad && !t.hdr_bad => {}
            o => return Err(format!("refdec on bad PEC: {:?}", o)),
        }
    }
    let p = ctrl_request(0x10, 0x20, 7, false, 0x01, &[0, 0x42]);
    if decide(&p) != (RefOut::Accept { ty: 0, a: 11, b: p.len() - 1 }) {
        return Err("refdec rejects forged Set EID request".into());
    }
    let p = ctrl_request(0x10, 0x20, 7, false, 0x01, &[0, 0x42, 9]);
    match decide(&p) {
        RefOut::Reject(t) if t.len_bad && !t.pec_bad => {}
        o => return Err(format!("refdec on long Set EID request: {:?}", o)),
    }
    let p = ctrl_response(0x10, 0x20, 7, 0x03, 0, &[0u8; 16]);
    if decide(&p) != (RefOut::Accept { ty: 0, a: 12, b: p.len() - 1 }) {
        return Err("refdec rejects forged UUID response".into());
    }
    let p = ctrl_response(0x10, 0x20, 7, 0x03, 4, &[]);
    match decide(&p) {
        RefOut::Reject(t) if t.cc == Some(4) => {}
        o => return Err(format!("refdec on cc=4 response: {:?}", o)),
    }
    let mut p = ctrl_request(0x10, 0x20, 0, false, 0x02, &[]);
    p[4] = 0x02;
    fix_pec(&mut p);
    match decide(&p) {
        RefOut::Reject(t) if t.hdr_bad => {}
        o => return Err(format!("refdec on version 2: {:?}", o)),
    }
    Ok(())
}
