//! Receive-path packet corpus: valid packets (library-encoded and forged), field sweeps,
//! truncations, corruptions, random byte strings with plausible headers, padded packets.

use crate::catalog::*;
use crate::refmodel::crc::crc8;
use crate::refmodel::forge::*;
use crate::refmodel::wire::*;
use crate::rng::Rng;

/// Data for a forged control message with a plausible length for its command.
fn ctrl_data(rng: &mut Rng, rq: bool, cmd: u8, right_len: bool) -> Vec<u8> {
    let fixed = if rq { req_fixed_len(cmd) } else { resp_fixed_len(cmd) };
    let n = if right_len {
        match fixed {
            Some(l) => l,
            None => match (rq, cmd) {
                (false, 0x02) => *rng.pick(&[3usize, 4]),
                (false, 0x05) => 1 + rng.below(8) as usize,
                (false, 0x06) => *rng.pick(&[4usize, 6, 8]),
                (true, 0x09) => 1 + 4 * rng.below(4) as usize,
                (true, 0x0A) => 1,
                (true, 0x0F) => 2,
                (true, 0x10) => 17,
                _ => {
                    if rng.chance(3, 4) {
                        0
                    } else {
                        rng.below(20) as usize
                    }
                }
            },
        }
    } else {
        match rng.below(8) {
            0 => rng.below(248) as usize,
            _ => rng.below(24) as usize,
        }
    };
    let mut d = rng.bytes(n);
    if rq && cmd == 0x01 && !d.is_empty() {
        // Set Endpoint ID: operation mostly Set/Force, sometimes Reset/Discovered, rarely out of range
        d[0] = match rng.below(16) {
            0 => 2,
            1 | 2 => 3,
            3 => rng.byte(),
            _ => rng.below(2) as u8,
        };
        if d.len() > 1 && rng.chance(7, 8) {
            d[1] = rng.range(1, 0xFE) as u8;
        }
    }
    if rq && cmd == 0x06 && !d.is_empty() && rng.chance(7, 8) {
        d[0] = rng.below(3) as u8;
    }
    d
}

pub fn random_cmd(rng: &mut Rng) -> u8 {
    match rng.below(20) {
        0..=11 => rng.range(1, 8) as u8,
        12 => 0,
        13..=16 => rng.range(9, 0x14) as u8,
        _ => rng.byte(),
    }
}

/// A forged control message (request or response) as another implementation might send it.
pub fn forged_ctrl(rng: &mut Rng) -> Vec<u8> {
    let rq = rng.chance(3, 5);
    let cmd = random_cmd(rng);
    let right_len = rng.chance(3, 4);
    let data = ctrl_data(rng, rq, cmd, right_len);
    let dst = rng.byte() & 0x7F;
    let src = rng.byte() & 0x7F;
    let iid = rng.byte() & 0x1F;
    let mut p = if rq {
        ctrl_request(dst, src, iid, rng.chance(1, 10), cmd, &data)
    } else {
        let cc = match rng.below(20) {
            0..=11 => 0,
            12..=16 => rng.range(1, 5) as u8,
            _ => rng.byte(),
        };
        ctrl_response(dst, src, iid, cmd, cc, &data)
    };
    if rng.chance(1, 20) {
        p[9] |= 0x20; // reserved bit of the control header
        fix_pec(&mut p);
    }
    p
}

/// A forged vendor-defined / SPDM / secured message.
pub fn forged_vendor(rng: &mut Rng) -> Vec<u8> {
    let ty = *rng.pick(&[TY_PCI, TY_IANA, TY_SPDM, TY_SECURED]);
    let n = match rng.below(8) {
        0 => 0,
        1 => rng.below(250) as usize,
        2 => 249 - rng.below(3) as usize,
        _ => rng.below(32) as usize,
    };
    let body = rng.bytes(n);
    let dst = rng.byte() & 0x7F;
    let src = rng.byte() & 0x7F;
    frame(dst, src, rng.byte(), rng.byte(), if rng.chance(3, 4) { FLAGS_REQ } else { rng.byte() }, ty, &body)
}

/// A packet produced by the library's own encoders (None if the drawn call was refused / panicked).
pub fn lib_encoded(rng: &mut Rng) -> Option<Vec<u8>> {
    let form = *rng.pick(&ALL_FORMS);
    let c = Call::random(form, rng, true, 249);
    encode_ok(&c)
}

/// Any well-formed packet.
pub fn gen_valid(rng: &mut Rng) -> Vec<u8> {
    match rng.below(10) {
        0..=2 => lib_encoded(rng).unwrap_or_else(|| forged_ctrl(rng)),
        3..=7 => forged_ctrl(rng),
        _ => forged_vendor(rng),
    }
}

/// Flip a burst: `pattern` is 8 bits wide with its leading (0x80) bit set; applied MSB-first at
/// bit offset `off` (bits beyond the end are dropped). Returns false if nothing was flipped.
pub fn apply_burst(p: &mut [u8], off: usize, pattern: u8) -> bool {
    let nbits = p.len() * 8;
    let mut changed = false;
    for k in 0..8 {
        if pattern & (0x80 >> k) != 0 {
            let bit = off + k;
            if bit < nbits {
                p[bit / 8] ^= 0x80 >> (bit % 8);
                changed = true;
            }
        }
    }
    changed
}

#[derive(Clone, Copy, Debug, PartialEq, Eq)]
pub enum Mutation {
    None,
    Truncate,
    FieldFixPec,
    FieldNoFix,
    WrongPec,
    Burst,
    MultiDamage,
    PadZeros,
    Extend,
}

/// Apply one random mutation in place; returns which.
pub fn mutate(rng: &mut Rng, p: &mut Vec<u8>) -> Mutation {
    if p.is_empty() {
        return Mutation::None;
    }
    match rng.below(16) {
        0 | 1 => {
            let k = rng.below(p.len() as u64) as usize;
            p.truncate(k);
            if rng.chance(1, 2) && !p.is_empty() {
                fix_pec(p);
            }
            Mutation::Truncate
        }
        2..=5 => {
            let lim = p.len().min(13);
            let i = rng.below(lim as u64) as usize;
            p[i] = rng.edgy_byte();
            fix_pec(p);
            Mutation::FieldFixPec
        }
        6 | 7 => {
            let i = rng.below(p.len() as u64) as usize;
            let old = p[i];
            while p[i] == old {
                p[i] = rng.byte();
            }
            Mutation::FieldNoFix
        }
        8 | 9 => {
            let n = p.len();
            let d = 1 + rng.below(255) as u8;
            p[n - 1] ^= d;
            Mutation::WrongPec
        }
        10 | 11 => {
            let off = rng.below(p.len() as u64 * 8) as usize;
            let pat = 0x80 | (rng.byte() & 0x7F);
            apply_burst(p, off, pat);
            Mutation::Burst
        }
        12 => {
            let k = 2 + rng.below(4);
            for _ in 0..k {
                let i = rng.below(p.len() as u64) as usize;
                p[i] ^= 1 + rng.below(255) as u8;
            }
            Mutation::MultiDamage
        }
        13 => {
            let k = 1 + rng.below(20) as usize;
            p.extend(std::iter::repeat(0u8).take(k));
            Mutation::PadZeros
        }
        14 => {
            // longer message with recomputed count/PEC (keeps headers, changes data length)
            let k = 1 + rng.below(6) as usize;
            let n = p.len();
            let tail = rng.bytes(k);
            p.truncate(n - 1);
            p.extend_from_slice(&tail);
            p.push(0);
            fix_count_and_pec(p);
            Mutation::Extend
        }
        _ => Mutation::None,
    }
}

/// Uniformly random bytes of length n, optionally with fixed-up header bytes and PEC so that
/// random data gets past the cheap checks.
pub fn random_string(rng: &mut Rng, n: usize) -> Vec<u8> {
    let mut p = rng.bytes(n);
    let fix = rng.below(4);
    if fix >= 1 {
        if n > 1 {
            p[1] = SMBUS_CMD;
        }
        if n > 4 {
            p[4] = HDR_BYTE;
        }
        if n > 8 {
            p[8] = *rng.pick(&SUPPORTED_TYPES);
        }
    }
    if fix >= 2 {
        if n > 10 && p[8] == TY_CONTROL {
            p[10] = random_cmd(rng);
            if n > 11 && p[9] & 0x80 == 0 && rng.chance(1, 2) {
                p[11] = 0;
            }
        }
        if n > 2 {
            p[2] = n.wrapping_sub(4) as u8;
        }
        if rng.chance(3, 4) {
            fix_pec(&mut p);
        }
    }
    p
}

/// The general receive-path mixture.
pub fn gen_any(rng: &mut Rng) -> Vec<u8> {
    match rng.below(10) {
        0..=2 => gen_valid(rng),
        3..=7 => {
            let mut p = gen_valid(rng);
            let k = 1 + rng.below(2);
            for _ in 0..k {
                mutate(rng, &mut p);
            }
            p
        }
        _ => {
            let n = match rng.below(10) {
                0 => rng.below(14) as usize,
                1 => rng.range(250, 263) as usize,
                2 => rng.range(500, 600) as usize,
                _ => rng.below(260) as usize,
            };
            random_string(rng, n)
        }
    }
}

/// A forged control request the responder can answer (the 7 answerable command forms), with the
/// vendor selector below `nsets`. Returns (packet, command).
pub fn answerable_request(rng: &mut Rng, dst7: u8, src7: u8, iid: u8, nsets: usize) -> Vec<u8> {
    match rng.below(8) {
        0 | 1 => {
            let op = *rng.pick(&[0u8, 0, 1, 1, 3]);
            ctrl_request(dst7, src7, iid, false, 0x01, &[op, rng.range(1, 0xFE) as u8])
        }
        2 => ctrl_request(dst7, src7, iid, false, 0x02, &[]),
        3 => ctrl_request(dst7, src7, iid, false, 0x03, &[]),
        4 => ctrl_request(dst7, src7, iid, false, 0x04, &[rng.edgy_byte()]),
        5 => ctrl_request(dst7, src7, iid, false, 0x05, &[]),
        _ => ctrl_request(dst7, src7, iid, false, 0x06, &[rng.below(nsets.max(1) as u64) as u8]),
    }
}

pub fn pec_ok(p: &[u8]) -> bool {
    !p.is_empty() && crc8(&p[..p.len() - 1]) == p[p.len() - 1]
}
