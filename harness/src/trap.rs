//! Panic trap: turns a panic inside the library into an observable event with a signature.
//! rustc's own runtime instrumentation (bounds checks, overflow checks, debug assertions,
//! unreachable!/unimplemented!) is the "sanitizer" of safe Rust; this is its report channel.

use std::cell::{Cell, RefCell};
use std::panic::{self, AssertUnwindSafe};

#[derive(Clone, Debug, PartialEq, Eq)]
pub struct PanicSig {
    /// coarse kind derived from the message head
    pub kind: &'static str,
    pub msg: String,
    pub file: String,
    pub line: u32,
}

impl PanicSig {
    pub fn short(&self) -> String {
        let f = self.file.rsplit('/').next().unwrap_or("");
        format!("{}@{}", self.kind, f)
    }
    pub fn long(&self) -> String {
        format!("{} [{}] at {}:{}", self.kind, self.msg, self.file, self.line)
    }
}

thread_local! {
    static TRAPPING: Cell<bool> = const { Cell::new(false) };
    static LAST: RefCell<Option<(String, String, u32)>> = const { RefCell::new(None) };
}

pub fn classify(msg: &str) -> &'static str {
    if msg.starts_with("index out of bounds")
        || msg.starts_with("range ")
        || msg.starts_with("slice index starts at")
        || (msg.starts_with("range") && msg.contains("out of range"))
        || msg.contains("out of range for slice")
    {
        "index"
    } else if msg.starts_with("attempt to ") && msg.contains("overflow") {
        "overflow"
    } else if msg.starts_with("attempt to ") {
        "arith"
    } else if msg.starts_with("not implemented") {
        "unimplemented"
    } else if msg.starts_with("internal error: entered unreachable code") {
        "unreachable"
    } else if msg.contains("source slice length") || msg.contains("copy_from_slice") {
        "copy_len"
    } else if msg.starts_with("called `Result::unwrap()`") || msg.starts_with("called `Option::unwrap()`") {
        "unwrap"
    } else if msg.starts_with("assertion") {
        "assert"
    } else {
        "explicit"
    }
}

/// Install the hook once, before any thread is spawned.
pub fn install() {
    let default = panic::take_hook();
    panic::set_hook(Box::new(move |info| {
        let trapping = TRAPPING.with(|t| t.get());
        if !trapping {
            default(info);
            return;
        }
        let msg = if let Some(s) = info.payload().downcast_ref::<&str>() {
            s.to_string()
        } else if let Some(s) = info.payload().downcast_ref::<String>() {
            s.clone()
        } else {
            String::from("<non-string panic payload>")
        };
        let (file, line) = match info.location() {
            Some(l) => (l.file().to_string(), l.line()),
            None => (String::new(), 0),
        };
        LAST.with(|l| *l.borrow_mut() = Some((msg, file, line)));
    }));
}

/// Run `f`; a panic becomes `Err(signature)`.
#[inline]
pub fn trap<R>(f: impl FnOnce() -> R) -> Result<R, PanicSig> {
    let prev = TRAPPING.with(|t| t.replace(true));
    let r = panic::catch_unwind(AssertUnwindSafe(f));
    TRAPPING.with(|t| t.set(prev));
    match r {
        Ok(v) => Ok(v),
        Err(_) => {
            let (msg, file, line) = LAST
                .with(|l| l.borrow_mut().take())
                .unwrap_or((String::from("<no message recorded>"), String::new(), 0));
            let mut head = msg.clone();
            if head.len() > 120 {
                let mut cut = 120;
                while !head.is_char_boundary(cut) {
                    cut -= 1;
                }
                head.truncate(cut);
            }
            Err(PanicSig { kind: classify(&msg), msg: head, file, line })
        }
    }
}
