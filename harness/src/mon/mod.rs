//! One monitor per property.

use crate::report::Report;
use crate::{RunCfg, Tier};

pub mod enc_common;
pub mod hist;
pub mod cfgsweep;
pub mod c01;
pub mod c02;
pub mod c03;
pub mod c04;
pub mod c05;
pub mod c06;
pub mod c07;
pub mod c08;
pub mod c09;
pub mod c10;
pub mod c11;
pub mod c12;
pub mod c13;
pub mod c14;
pub mod c15;
pub mod c16;
pub mod c17;
pub mod c18;
pub mod c19;

#[derive(Clone, Debug)]
pub struct Child {
    pub build: &'static str,
    pub part: &'static str,
    pub scale: f64,
}

#[derive(Clone)]
pub struct Mon {
    pub id: &'static str,
    pub title: &'static str,
    /// run one shard
    pub run: fn(&RunCfg) -> Report,
    /// after all shards are merged: floors, exhaustiveness decided from measured counts
    pub finish: fn(&mut Report, &RunCfg),
    /// re-evaluate the oracle on one recorded case
    pub replay: fn(&str, &mut Report) -> Result<(), String>,
    pub rule: &'static str,
    pub assumptions: &'static [&'static str],
    pub children: fn(Tier) -> Vec<Child>,
}

pub fn no_children(_: Tier) -> Vec<Child> {
    Vec::new()
}

/// The same workload at a quarter of the size under the `rel` build (overflow checks and debug
/// assertions off): code behind `cfg(debug_assertions)`, a `debug_assert!`, or arithmetic that wraps
/// instead of panicking behaves differently there, and the library's own tests only ever see one
/// of the two builds.
pub fn rel_child_quarter(_: Tier) -> Vec<Child> {
    vec![Child { build: "rel", part: "rel", scale: 0.25 }]
}

pub fn rel_child(_: Tier) -> Vec<Child> {
    vec![Child { build: "rel", part: "rel", scale: 1.0 }]
}

/// Floor helper: fewer distinct non-trivial cases than `floor` (scaled) => inconclusive.
pub fn floor(rep: &mut Report, cfg: &RunCfg, floor: u64) {
    let f = ((floor as f64) * cfg.scale.min(1.0)).max(2.0) as u64;
    if rep.distinct_count() < f {
        rep.inconclusive.push(format!("monitor observed only {} distinct non-trivial cases (floor {})", rep.distinct_count(), f));
    }
}

pub fn registry() -> Vec<Mon> {
    vec![c01::mon(), c02::mon(), c03::mon(), c04::mon(), c05::mon(), c06::mon(), c07::mon(), c08::mon(), c09::mon(), c10::mon(), c11::mon(), c12::mon(), c13::mon(), c14::mon(), c15::mon(), c16::mon(), c17::mon(), c18::mon(), c19::mon()]
}
