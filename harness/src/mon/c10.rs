//! C10 — the receive path returns a result for every input instead of crashing.

use super::*;
use crate::classify::*;
use crate::corpus::*;
use crate::json::{hex, unhex, J};
use crate::libapi::*;
use crate::rng::hash_bytes;
use libmctp::smbus::MCTPSMBusContext;

pub fn mon() -> Mon {
    Mon {
        id: "C10",
        title: "The receive path returns a result for every input instead of crashing",
        run,
        finish,
        replay,
        rule: "Receive corpus: every base packet (all library encoders, forged requests/responses for every command, all message types, maximum-length packets), each of bytes 0-12 through all 256 values (PEC recomputed or not), every command x direction x data length, every completion code, every Set-EID operation and vendor selector 0..255, every control-header and type byte, every truncation point of every base packet and empty input, every total length 0..263 and 508..519 per type, zero-padded packets, plus a seeded random mixture of valid, mutated and random strings, plus *storms* (600 consecutive inputs of one kind - assignments, queries, unsupported commands, responses, vendor messages, truncated packets, the same with a wrong PEC every time - on a fresh context) and two *marathons* (70 000 EID-changing assignments, 70 000 vendor-set queries, on one context each). Each input goes to decode_packet, get_length and process_packet (response buffer 64..300 bytes) on long-lived contexts with random valid configurations (0-16 vendor sets of format 0/1, <= 30 types) under the panic trap with overflow checks on. Any panic is a refuting event keyed by (API, byte-determined input class, panic kind). Non-trivial = every input (each is a real execution of all three entry points); distinct = distinct input byte strings.",
        assumptions: &[
            "configurations with a vendor format >= 2 or more than 30 message types and response buffers < 64 bytes are not generated",
            "a process_packet panic that is the same panic decode_packet raises on that input is reported once, under decode_packet",
            "chk build: overflow-checks and debug-assertions on (measured at start-up); rel build and Miri (thorough) repeat a reduced workload",
        ],
        children,
    }
}

fn children(t: Tier) -> Vec<Child> {
    let mut v = vec![Child { build: "rel", part: "rel", scale: 0.25 }];
    if t == Tier::Thorough {
        v.push(Child { build: "miri", part: "miri", scale: 0.001 });
    }
    v
}

pub fn check(ctx: &MCTPSMBusContext, cfgs: &CtxCfg, x: &[u8], rblen: usize, rep: &mut Report) {
    rep.eval();
    let case = || format!("{}|{}|{}", cfgs.encode(), rblen, hex(x));
    let dclass = decode_class(x);
    rep.class(&format!("in:{}", dclass));
    let d = decode(ctx, x);
    let mut decode_panicked = false;
    if let DecOut::Panic(p) = &d {
        decode_panicked = true;
        rep.class(&format!("decode_packet:panic:{}", p.kind));
        rep.violation(
            &format!("decode_packet:{}:panic:{}", dclass, p.kind),
            || format!("decode_packet panicked on {} byte(s) {}: {}", x.len(), hex(&x[..x.len().min(40)]), p.long()),
            case,
        );
    } else {
        rep.class(&format!("decode_packet:{}", if d.is_ok() { "ok" } else { "err" }));
    }
    let l = get_length(ctx, x);
    if let LenOut::Panic(p) = &l {
        rep.violation(
            &format!("get_length:{}:panic:{}", if x.len() < 3 { "n<3" } else { "n>=3" }, p.kind),
            || format!("get_length panicked on {} byte(s) {}: {}", x.len(), hex(&x[..x.len().min(16)]), p.long()),
            case,
        );
    }
    let mut rb = vec![0xEEu8; rblen];
    let pr = process(ctx, x, &mut rb);
    if let ProcOut::Panic(p) = &pr {
        if decode_panicked {
            rep.class("process_packet:panic-via-decode");
        } else {
            let pclass = process_class(x, cfgs.vendors.len());
            rep.class(&format!("process_packet:panic:{}", p.kind));
            rep.violation(
                &format!("process_packet:{}:panic:{}", pclass, p.kind),
                || format!("process_packet panicked on {} byte(s) {} (context {}): {}", x.len(), hex(&x[..x.len().min(40)]), cfgs.describe(), p.long()),
                case,
            );
        }
    } else {
        rep.class(&format!("process_packet:{}", match &pr {
            ProcOut::Ok { resp: Some(_), .. } => "ok-responded",
            ProcOut::Ok { .. } => "ok-noresp",
            _ => "err",
        }));
    }
    rep.class(crate::classify::len_bucket(x.len()));
    rep.nontrivial(hash_bytes(10, x));
    if rep.want_sample() && x.len() > 12 {
        rep.sample(|| J::obj(vec![("input", J::s(hex(x))), ("decode_packet", J::s(d.brief())), ("get_length", J::s(l.brief())), ("process_packet", J::s(pr.brief()))]));
    }
}

fn run(cfg: &RunCfg) -> Report {
    let mut rep = Report::new();
    let mut crng = cfg.rng("c10-cfg");
    let small = cfg.is_small();
    let plan = RxPlan {
        field_sweep: !small,
        cmd_len_max: if small { 0 } else { cfg.pick(24, 48) as usize },
        truncations: !small,
        lengths: !small,
        random: if small { 300_000 } else { cfg.pick(6_000_000, 150_000_000) },
    };
    // three long-lived contexts per shard; inputs rotate over them
    let cfgs: Vec<CtxCfg> = (0..3).map(|_| CtxCfg::random_maybe_empty(&mut crng, false, 4)).collect();
    with_ctx(&cfgs[0], |c0| {
        with_ctx(&cfgs[1], |c1| {
            with_ctx(&cfgs[2], |c2| {
                // two of the three contexts get a UUID installed; the corpus below is extended with
                // requests whose data echoes the receiving context's own identity
                let uuids: [[u8; 16]; 3] = {
                    let mut u = [[0u8; 16]; 3];
                    crng.fill(&mut u[1]);
                    u[2].copy_from_slice(&crng.pattern_bytes(16));
                    u
                };
                c1.set_uuid(&uuids[1]);
                c2.set_uuid(&uuids[2]);
                let ctxs: [&MCTPSMBusContext; 3] = [c0, c1, c2];
                {
                    let mut erng = cfg.rng("echo");
                    let echo_n = if small { 20 } else { 4000 };
                    for i in 0..echo_n {
                        let k = i % 3;
                        let own = cfgs[k].addr & 0x7F;
                        let data: Vec<u8> = match erng.below(5) {
                            0 => uuids[k][..15].to_vec(),
                            1 => uuids[k].to_vec(),
                            2 => {
                                let mut d = uuids[k].to_vec();
                                d.push(erng.byte());
                                d
                            }
                            3 => cfgs[k].types.clone(),
                            _ => {
                                if cfgs[k].vendors.is_empty() {
                                    vec![]
                                } else {
                                    crate::refmodel::endpoint::Model::new(&cfgs[k]).vendor_field(erng.below(cfgs[k].vendors.len() as u64) as usize)
                                }
                            }
                        };
                        let cmd = match erng.below(3) {
                            0 => 0x10,
                            1 => erng.range(0x01, 0x14) as u8,
                            _ => erng.byte(),
                        };
                        let rq = erng.chance(3, 4);
                        let x = if rq {
                            crate::refmodel::forge::ctrl_request(own, erng.byte() & 0x7F, erng.byte() & 0x1F, false, cmd, &data)
                        } else {
                            crate::refmodel::forge::ctrl_response(own, erng.byte() & 0x7F, erng.byte() & 0x1F, cmd, 0, &data)
                        };
                        check(ctxs[k], &cfgs[k], &x, 64 + (i % 5) * 40, &mut rep);
                    }
                }
                let mut k = 0usize;
                for_each_input(cfg, "c10", &plan, &mut |x, rng| {
                    k = (k + 1) % 3;
                    let rblen = if rng.chance(1, 4) { 64 } else { 64 + rng.below(237) as usize };
                    check(ctxs[k], &cfgs[k], x, rblen, &mut rep);
                });
            })
        })
    });
    // configuration boundaries: every type count x vendor-set count, one request per command
    if !small || cfg.shard == 0 {
        let mut srng = cfg.rng("c10-cfgsweep");
        crate::mon::cfgsweep::for_each(&mut srng, !small, &mut |ctx, c, x| {
            check(ctx, c, x, 64 + (x.len() % 3) * 90, &mut rep);
        });
        rep.class("configuration-boundary-sweep");
    }
    // storms: 600 consecutive inputs of ONE kind on a fresh context (a counter of consecutive
    // failures / requests / responses that lives in a byte wraps after 256 of them)
    if !small || cfg.shard == 0 {
        let mut rng = cfg.rng("c10-storm");
        let kinds = 12u64;
        let reps = if small { 1 } else { cfg.pick(2, 20) };
        for rep_i in 0..reps {
            for kind in 0..kinds {
                if (kind + rep_i * kinds) % cfg.nshards as u64 != cfg.shard as u64 {
                    continue;
                }
                let c = CtxCfg::random_maybe_empty(&mut rng, false, 6);
                with_ctx(&c, |ctx| {
                    let n = if small { 280 } else { 600 };
                    for i in 0..n {
                        let mut x = match kind {
                            0 | 1 => crate::mon::hist::set_eid_request(&mut rng, c.addr),
                            2 => crate::refmodel::forge::ctrl_request(c.addr & 0x7F, rng.byte() & 0x7F, i as u8 & 0x1F, false, 0x02, &[]),
                            3 => crate::refmodel::forge::ctrl_request(c.addr & 0x7F, rng.byte() & 0x7F, i as u8 & 0x1F, false, 0x06, &[rng.byte()]),
                            4 => crate::refmodel::forge::ctrl_request(c.addr & 0x7F, rng.byte() & 0x7F, 0, false, rng.range(7, 255) as u8, &[]),
                            5 => crate::refmodel::forge::ctrl_response(c.addr & 0x7F, rng.byte() & 0x7F, 0, 0x02, rng.below(6) as u8, &[1, 2, 3]),
                            6 => forged_vendor(&mut rng),
                            7 => gen_valid(&mut rng),
                            8 => {
                                let mut p = gen_valid(&mut rng);
                                let k = rng.below(p.len() as u64) as usize;
                                p.truncate(k);
                                p
                            }
                            9 => random_string(&mut rng, 20),
                            10 => crate::refmodel::forge::ctrl_request(c.addr & 0x7F, 0x11, 1, false, 0x01, &[rng.byte(), rng.byte()]),
                            _ => gen_valid(&mut rng),
                        };
                        // kinds 1 and 11: the same kind with a wrong PEC every time
                        if (kind == 1 || kind == 11) && !x.is_empty() {
                            let l = x.len();
                            x[l - 1] ^= 1 + rng.below(255) as u8;
                        }
                        check(ctx, &c, &x, 64 + (i % 3) * 50, &mut rep);
                    }
                });
                rep.class("storm-of-one-input-kind");
            }
        }
    }
    // marathons: 70 000 state-changing requests on ONE context (a u16 counter of EID changes, of
    // completed enumerations, of anything, wraps at 65 536); two shards do one each
    if !small && (cfg.shard == 0 || cfg.shard == 1) {
        let mut rng = cfg.rng("c10-marathon");
        let c = CtxCfg { addr: 0x21, types: vec![1, 2, 3], vendors: vec![(0, 0x1234, 1), (1, 0xA1B2_C3D4, 2), (0, 0x8086, 3)] };
        with_ctx(&c, |ctx| {
            let mut rb = [0u8; 64];
            for i in 0..70_000u32 {
                let x = if cfg.shard == 0 {
                    // every request changes the EID
                    crate::refmodel::forge::ctrl_request(0x21, (i % 127) as u8, (i & 0x1F) as u8, false, 0x01, &[(i & 1) as u8, 1 + (i % 253) as u8])
                } else {
                    // a requester walking the vendor sets over and over
                    crate::refmodel::forge::ctrl_request(0x21, 0x40, 0, false, 0x06, &[(i % 3) as u8])
                };
                // the full three-entry-point check on a sample, process only on the rest
                if i % 64 == 0 || i > 65_500 {
                    check(ctx, &c, &x, 64, &mut rep);
                } else {
                    rep.eval();
                    if let ProcOut::Panic(p) = process(ctx, &x, &mut rb) {
                        rep.violation(
                            &format!("process_packet:marathon-step:panic:{}", p.kind),
                            || format!("process_packet panicked on request number {} of a run of identical-kind requests on one context: {}; request {}", i + 1, p.long(), hex(&x)),
                            || format!("marathon;shard={};step={}", cfg.shard, i),
                        );
                        break;
                    }
                }
            }
            let _ = &mut rng;
        });
        rep.class("marathon-of-70000-requests");
    }
    rep
}

fn finish(rep: &mut Report, cfg: &RunCfg) {
    if cfg.is_small() {
        return;
    }
    floor(rep, cfg, 100_000);
    for c in ["in:short<9", "in:short=9", "in:hdr-unsupported", "in:pci", "in:iana", "in:spdm", "in:secured", "in:ctrl-short<=11", "in:ctrl-req-cmd<=0x08", "in:ctrl-req-cmd>=0x09", "in:ctrl-resp-success", "in:ctrl-resp-cc1-5", "in:ctrl-resp-cc>=6", "n=0", "n=256-259", "n>=260"] {
        if !rep.classes.contains_key(c) {
            rep.inconclusive.push(format!("input class '{}' never generated", c));
        }
    }
}

fn replay(case: &str, rep: &mut Report) -> Result<(), String> {
    let parts: Vec<&str> = case.split('|').collect();
    if parts.len() != 3 {
        return Err("bad case".into());
    }
    let cfgs = CtxCfg::decode(parts[0]).ok_or("bad cfg")?;
    let rblen: usize = parts[1].parse().map_err(|_| "bad rblen")?;
    let x = unhex(parts[2]).ok_or("bad hex")?;
    with_ctx(&cfgs, |c| check(c, &cfgs, &x, rblen, rep));
    Ok(())
}
