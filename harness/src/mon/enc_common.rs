//! Helpers shared by the encoder-side monitors (C01, C03-C08, C16).

use crate::catalog::*;
use crate::report::Report;
use crate::trap::PanicSig;

pub const CAP: usize = 700;

/// Observation of one encoder call into a poisoned CAP-byte buffer.
pub struct EncObs {
    pub res: Result<Result<usize, ()>, PanicSig>,
    pub buf: Vec<u8>,
    pub poison: Vec<u8>,
}

impl EncObs {
    /// The encoded packet if the encoder reported a length that fits the buffer.
    pub fn packet(&self) -> Option<&[u8]> {
        match &self.res {
            Ok(Ok(n)) if *n <= self.buf.len() => Some(&self.buf[..*n]),
            _ => None,
        }
    }
    pub fn outcome_class(&self) -> String {
        match &self.res {
            Ok(Ok(_)) => "ok".into(),
            Ok(Err(())) => "err".into(),
            Err(p) => format!("panic:{}", p.short()),
        }
    }
    pub fn brief(&self) -> String {
        match &self.res {
            Ok(Ok(n)) => format!("Ok({}) bytes={}", n, crate::json::hex(&self.buf[..(*n).min(self.buf.len())])),
            Ok(Err(())) => "Err(())".into(),
            Err(p) => format!("PANIC {}", p.long()),
        }
    }
}

pub fn observe(c: &Call, poison_seed: u64) -> EncObs {
    let (res, buf, poison) = encode_poisoned(c, CAP, poison_seed);
    EncObs { res, buf, poison }
}

/// Record the per-form outcome class; returns the packet when there is one to judge.
pub fn note_outcome<'a>(rep: &mut Report, c: &Call, obs: &'a EncObs) -> Option<&'a [u8]> {
    rep.class(&format!("{}:{}", c.form.name(), obs.outcome_class()));
    match &obs.res {
        Ok(Ok(n)) if *n > obs.buf.len() || *n < 10 => {
            rep.class("reported-length-not-a-packet");
            None
        }
        _ => obs.packet(),
    }
}

pub fn len_bucket(n: usize) -> &'static str {
    match n {
        0..=9 => "len:0-9",
        10..=15 => "len:10-15",
        16..=31 => "len:16-31",
        32..=63 => "len:32-63",
        64..=127 => "len:64-127",
        128..=251 => "len:128-251",
        252..=255 => "len:252-255",
        256..=259 => "len:256-259",
        _ => "len:260+",
    }
}

pub fn sample_json(c: &Call, obs: &EncObs) -> crate::json::J {
    use crate::json::J;
    J::obj(vec![("call", J::s(c.describe())), ("observed", J::s(obs.brief()))])
}
