//! What a monitor observed: counts, classes, samples, contradictions (findings).

use crate::json::J;
use std::collections::{BTreeMap, HashSet};

#[derive(Clone, Debug)]
pub struct Finding {
    pub key: String,
    pub desc: String,
    /// replayable case string (monitor-specific mini format)
    pub case: String,
    pub count: u64,
}

pub struct Report {
    pub evaluations: u64,
    distinct: HashSet<u64>,
    distinct_cap: usize,
    pub distinct_saturated: bool,
    pub classes: BTreeMap<String, u64>,
    pub samples: Vec<J>,
    pub sample_cap: usize,
    pub findings: BTreeMap<String, Finding>,
    pub inconclusive: Vec<String>,
    pub notes: Vec<String>,
    pub extra: Vec<(String, J)>,
    /// JSONL event log lines (bounded), checked offline by offline/check_trace.py
    pub trace: Vec<String>,
    /// names of completely enumerated sub-spaces
    pub exhaustive_spaces: Vec<String>,
    /// true only when the property's whole stated space was enumerated
    pub exhaustive: bool,
}

pub const DISTINCT_CAP_PER_SHARD: usize = 1 << 18;
pub const TRACE_CAP: usize = 200_000;

impl Default for Report {
    fn default() -> Self {
        Self::new()
    }
}

impl Report {
    pub fn new() -> Self {
        Report {
            evaluations: 0,
            distinct: HashSet::new(),
            distinct_cap: DISTINCT_CAP_PER_SHARD,
            distinct_saturated: false,
            classes: BTreeMap::new(),
            samples: Vec::new(),
            sample_cap: 6,
            findings: BTreeMap::new(),
            inconclusive: Vec::new(),
            notes: Vec::new(),
            extra: Vec::new(),
            trace: Vec::new(),
            exhaustive_spaces: Vec::new(),
            exhaustive: false,
        }
    }
    #[inline]
    pub fn eval(&mut self) {
        self.evaluations += 1;
    }
    #[inline]
    pub fn evals(&mut self, n: u64) {
        self.evaluations += n;
    }
    /// Record a distinct non-trivial case by its 64-bit key. Conservative once the cap is hit.
    #[inline]
    pub fn nontrivial(&mut self, key: u64) {
        if self.distinct.len() < self.distinct_cap {
            self.distinct.insert(key);
        } else {
            self.distinct_saturated = true;
        }
    }
    pub fn distinct_count(&self) -> u64 {
        self.distinct.len() as u64
    }
    #[inline]
    pub fn class(&mut self, name: &str) {
        self.class_n(name, 1);
    }
    #[inline]
    pub fn class_n(&mut self, name: &str, n: u64) {
        if let Some(c) = self.classes.get_mut(name) {
            *c += n;
        } else {
            self.classes.insert(name.to_string(), n);
        }
    }
    pub fn sample(&mut self, f: impl FnOnce() -> J) {
        if self.samples.len() < self.sample_cap {
            self.samples.push(f());
        }
    }
    pub fn want_sample(&self) -> bool {
        self.samples.len() < self.sample_cap
    }
    /// An oracle was contradicted by a real execution.
    pub fn violation(&mut self, key: &str, desc: impl FnOnce() -> String, case: impl FnOnce() -> String) {
        if let Some(f) = self.findings.get_mut(key) {
            f.count += 1;
        } else {
            self.findings.insert(key.to_string(), Finding { key: key.to_string(), desc: desc(), case: case(), count: 1 });
        }
    }
    pub fn trace_event(&mut self, j: &J) {
        if self.trace.len() < TRACE_CAP {
            self.trace.push(j.compact());
        }
    }
    pub fn note(&mut self, s: impl Into<String>) {
        let s = s.into();
        if !self.notes.contains(&s) {
            self.notes.push(s);
        }
    }
    pub fn merge(&mut self, o: Report) {
        self.evaluations += o.evaluations;
        for k in o.distinct {
            if self.distinct.len() < self.distinct_cap * 64 {
                self.distinct.insert(k);
            } else {
                self.distinct_saturated = true;
            }
        }
        self.distinct_saturated |= o.distinct_saturated;
        for (k, v) in o.classes {
            *self.classes.entry(k).or_insert(0) += v;
        }
        for s in o.samples {
            if self.samples.len() < self.sample_cap * 3 {
                self.samples.push(s);
            }
        }
        for (k, f) in o.findings {
            if let Some(e) = self.findings.get_mut(&k) {
                e.count += f.count;
            } else {
                self.findings.insert(k, f);
            }
        }
        for s in o.inconclusive {
            if !self.inconclusive.contains(&s) {
                self.inconclusive.push(s);
            }
        }
        for s in o.notes {
            self.note(s);
        }
        for (k, v) in o.extra {
            if !self.extra.iter().any(|(k2, _)| *k2 == k) {
                self.extra.push((k, v));
            }
        }
        for l in o.trace {
            if self.trace.len() < TRACE_CAP {
                self.trace.push(l);
            }
        }
        for s in o.exhaustive_spaces {
            if !self.exhaustive_spaces.contains(&s) {
                self.exhaustive_spaces.push(s);
            }
        }
        self.exhaustive |= o.exhaustive;
    }
}
