//! C07 — control response bodies follow the DSP0236 response layouts.

use super::enc_common::*;
use super::*;
use crate::catalog::*;
use crate::encwl::*;
use crate::rng::hash_bytes;

pub fn mon() -> Mon {
    Mon {
        id: "C07",
        title: "Control response bodies follow the DSP0236 response layouts",
        run,
        finish,
        replay,
        rule: "The 6 control response encoders x all 6 completion codes x every status/type enum combination x EID previously stored through set_eid on the response half (all 256 values; the request half holds a different value) x random UUIDs x 0-33 message types x vendor fields of 0-7 bytes x selector 0..255, into poisoned buffers; plus the control responses process_packet encodes (header bits and command code). Bytes 9.. are compared with literal layouts: (b9 & 0xE0) == 0, b10 == command code, b11 == completion code, and for Success the command's fields in DSP0236 order. Non-trivial = a response packet was judged; distinct = distinct (form, body bytes).",
        assumptions: &[
            "the instance-ID bits of byte 9 are not judged (C07 does not mention them; C12 does)",
            "for a non-Success completion code only bytes 9-11 are constrained",
        ],
        children: rel_child_quarter,
    }
}

fn plan(cfg: &RunCfg) -> EncPlan {
    let mut p = EncPlan::new(&RESPONSE_FORMS);
    // the body does not depend on where the packet goes: the destination is swept as the byte parameter it is
    p.addr7 = false;
    p.random_per_form = cfg.pick(80_000, 5_000_000);
    p.param_sweep_reps = cfg.pick(24, 400) as u32;
    p.addr_sweep_reps = cfg.pick(4, 100) as u32;
    p
}

pub fn check(c: &Call, rep: &mut Report) {
    let obs = observe(c, 0xC07);
    let exp = crate::catalog::expected_as_stored(c);
    rep.eval();
    let form = c.form.name();
    let pkt = match note_outcome(rep, c, &obs) {
        Some(p) => p,
        None => {
            // arguments that are valid and fit the frame must be encoded with the stated layout;
            // a refusal or a panic is not that encoding
            // the statement is about the body; a destination byte above 0x7F is swept because it is a
            // byte parameter, but an encoder that refuses it (not a 7-bit address) encodes nothing wrong
            let may_refuse = if c.dest > 0x7F { exp.may_refuse.or(Some("destination byte above 0x7F")) } else { exp.may_refuse };
            if let (Some(why), Ok(Err(()))) = (may_refuse, &obs.res) {
                rep.class(&format!("unjudged:refused:{}", why));
            } else if exp.outcome == Outcome::Ok {
                let oc = match &obs.res {
                    Ok(Err(())) => "refused".to_string(),
                    Err(p) => format!("panic:{}", p.kind),
                    _ => "no-packet".to_string(),
                };
                rep.violation(&format!("{}:valid-message-not-encoded:{}", form, oc), || format!("valid arguments ({} byte packet expected) were not encoded: {}", exp.total_len(), obs.brief()), || c.encode());
            }
            return;
        }
    };
    let n = pkt.len();
    let body = &pkt[9..n - 1];
    rep.nontrivial(hash_bytes(c.form as u64 + 0x700, body));
    rep.class(&format!("cc:{}", c.p[0]));
    let what = if body.len() < 3 {
        Some("length")
    } else if body[0] & 0xE0 != 0 {
        Some("ctrl-header-bits")
    } else if body[1] != exp.body[1] {
        Some("command-code")
    } else if body[2] != exp.body[2] {
        Some("completion-code")
    } else if exp.judged == exp.body.len() && body.len() != exp.body.len() {
        Some("length")
    } else if exp.judged == exp.body.len() && body[3..] != exp.body[3..] {
        Some("fields")
    } else {
        None
    };
    if let Some(w) = what {
        rep.violation(
            &format!("{}:{}", form, w),
            || format!("body (bytes 9..) {} != DSP0236 layout {} (first {} bytes judged); {}", crate::json::hex(body), crate::json::hex(&exp.body), exp.judged, obs.brief()),
            || c.encode(),
        );
    }
    if rep.want_sample() {
        rep.sample(|| sample_json(c, &obs));
    }
}

fn run(cfg: &RunCfg) -> Report {
    let mut rep = Report::new();
    let p = plan(cfg);
    for_each_call(cfg, "c07", &p, &mut |c, _| check(c, &mut rep));
    {
        let n = if cfg.is_small() { 200 } else { cfg.pick(200_000, 4_000_000) };
        let mut rrep = Report::new();
        for_each_response(cfg, "c07-responder", n, &mut |req, resp, who, rep| check_response(req, resp, who, rep), &mut rrep);
        rep.merge(rrep);
    }
    // encode - N changes of the stored EID - encode the same call again on the SAME context: a frame
    // cache keyed by a wrapping change counter would replay a stale EID. N over 1..600 and the wrap
    // points of 8/16-bit counters.
    if !cfg.is_small() {
        use libmctp::mctp_traits::SMBusMCTPRequestResponse;
        let mut rng = cfg.rng("c07-cache");
        let ns_list: Vec<u32> = (1..=600u32).chain([65_535, 65_536, 65_537, 131_072]).collect();
        for (k, &n) in ns_list.iter().enumerate() {
            if k as u64 % cfg.nshards as u64 != cfg.shard as u64 {
                continue;
            }
            for form in [Form::RGetEid, Form::RSetEid] {
                let mut c = Call::random(form, &mut rng, true, 0);
                c.hist = 0;
                c.p[0] = 0;
                let types = [0x7Eu8];
                let vend = [libmctp::vendor_packets::VendorIDFormat { format: 0, data: 1, numeric_value: 1 }];
                let ctx = libmctp::smbus::MCTPSMBusContext::new(c.own, &types, &vend);
                let mut buf = [0u8; 64];
                let first_eid = c.eid_this;
                let _ = invoke_on(&ctx, &c, &mut buf, true);
                // n changes of the response half's EID, each to a different value, ending elsewhere
                let mut e = first_eid;
                for _ in 0..n {
                    e = e.wrapping_add(1 + (rng.byte() % 3));
                    ctx.get_response().set_eid(e);
                }
                // the sweep must END on an EID inside C13's accessor quantifier (0x01-0xFE) and
                // different from the first one: whether a store of 0x00 / 0xFF is adopted is free
                while e == first_eid || e == 0x00 || e == 0xFF {
                    e = e.wrapping_add(1);
                    ctx.get_response().set_eid(e);
                }
                let mut c2 = c.clone();
                c2.eid_this = e;
                let exp = expected(&c2);
                let mut out = [0xEEu8; 64];
                let r = invoke_on(&ctx, &c2, &mut out, false);
                rep.eval();
                rep.class("encode-N-changes-encode");
                if let Ok(Ok(len)) = r {
                    let body = &out[9..len - 1];
                    if body != &exp.body[..] {
                        rep.violation(
                            &format!("{}:stale-after-eid-changes", form.name()),
                            || format!("after {} changes of the stored EID (now {:#04x}) the same call yields body {} instead of {}", n, e, crate::json::hex(body), crate::json::hex(&exp.body)),
                            || format!("cache|{}|{}", n, c2.encode()),
                        );
                    }
                }
            }
        }
    }
    // exhaustive: all 256 stored EIDs x all enum combinations x all completion codes (Set/Get EID)
    if !cfg.is_small() {
        let mut rng = cfg.rng("c07-eids");
        let mut counter = 0u64;
        let reps = cfg.pick(1, 8);
        for _ in 0..reps {
            for eid in 0..=255u8 {
                for cc in 0..6u8 {
                    for a in 0..2u8 {
                        for b in 0..4u8 {
                            for f in 0..2u8 {
                                if counter % cfg.nshards as u64 == cfg.shard as u64 {
                                    let mut c = Call::random(Form::RGetEid, &mut rng, true, 0);
                                    c.p = [cc, a, b, f];
                                    c.eid_this = eid;
                                    c.eid_other = eid.wrapping_add(1 + rng.below(255) as u8);
                                    check(&c, &mut rep);
                                    if b < 3 && f == 0 {
                                        let mut c = Call::random(Form::RSetEid, &mut rng, true, 0);
                                        c.p = [cc, a, b, 0];
                                        c.eid_this = eid;
                                        c.eid_other = eid.wrapping_add(1 + rng.below(255) as u8);
                                        check(&c, &mut rep);
                                    }
                                }
                                counter += 1;
                            }
                        }
                    }
                }
            }
        }
    }
    rep
}

/// Control responses encoded by process_packet: header bits clear, command code of the command
/// being answered (the completion code is the library's own choice there and is not judged).
pub fn check_response(req: &[u8], resp: &[u8], who: &crate::libapi::CtxCfg, rep: &mut Report) {
    rep.eval();
    rep.class("responder:response");
    rep.nontrivial(hash_bytes(0x77, &resp[9..]));
    let mut bad = |what: &str, detail: String| {
        rep.violation(
            &format!("process_packet-response:{}", what),
            || format!("{}; request {} -> response {}", detail, crate::json::hex(req), crate::json::hex(resp)),
            || format!("resp|{}|{}", who.encode(), crate::json::hex(req)),
        );
    };
    if resp.len() < 13 {
        bad("length", "no room for a completion code".into());
        return;
    }
    if resp[9] & 0xE0 != 0 {
        bad("ctrl-header-bits", format!("byte 9 {:#04x}: Rq/D/reserved not clear", resp[9]));
    }
    if resp[10] != req[10] {
        bad("command-code", format!("command code {:#04x} != the command being answered {:#04x}", resp[10], req[10]));
    }
}

fn finish(rep: &mut Report, cfg: &RunCfg) {
    floor(rep, cfg, 20_000);
    if !cfg.is_small() {
        for f in RESPONSE_FORMS {
            if !rep.classes.contains_key(&format!("{}:ok", f.name())) {
                rep.inconclusive.push(format!("encoder {} never produced a packet", f.name()));
            }
        }
        for cc in 0..6 {
            if !rep.classes.contains_key(&format!("cc:{}", cc)) {
                rep.inconclusive.push(format!("completion code {} never used", cc));
            }
        }
    }
}

fn replay(case: &str, rep: &mut Report) -> Result<(), String> {
    if let Some(rest) = case.strip_prefix("resp|") {
        return replay_response(rest, rep, &mut |q, r, w, rep| check_response(q, r, w, rep));
    }
    let c = Call::decode(case).ok_or("cannot parse case")?;
    check(&c, rep);
    Ok(())
}
