//! Helpers shared by the encoder-side monitors (C01, C03-C08, C16).

use crate::catalog::*;
use crate::report::Report;
use crate::trap::PanicSig;

pub const CAP: usize = 700;

/// Observation of one encoder call into a poisoned CAP-byte buffer.
pub struct EncObs {
    pub res: Result<Result<usize, ()>, PanicSig>,
    pub buf: Vec<u8>,
    pub poison: Vec<u8>,
    /// which buffer this observation was made into: "roomy" (700 bytes), "tight" (len..len+2), "landmark" (255, 256, 257, 260, 511, 512, 1024 or 4096 bytes),
    /// "short:claimed-ok" (shorter than the packet and the encoder still reported success) or
    /// "roomy:after-short-refused" (a shorter buffer was refused or panicked - not judged)
    pub mode: &'static str,
}

impl EncObs {
    /// The encoded packet if the encoder reported a length that fits the buffer.
    pub fn packet(&self) -> Option<&[u8]> {
        match &self.res {
            Ok(Ok(n)) if *n <= self.buf.len() => Some(&self.buf[..*n]),
            _ => None,
        }
    }
    pub fn outcome_class(&self) -> String {
        match &self.res {
            Ok(Ok(_)) => "ok".into(),
            Ok(Err(())) => "err".into(),
            Err(p) => format!("panic:{}", p.short()),
        }
    }
    pub fn brief(&self) -> String {
        match &self.res {
            Ok(Ok(n)) => format!("Ok({}) bytes={}", n, crate::json::hex(&self.buf[..(*n).min(self.buf.len())])),
            Ok(Err(())) => "Err(())".into(),
            Err(p) => format!("PANIC {}", p.long()),
        }
    }
}

/// One call in three that produced a packet is observed a second time into a *tight* buffer - exactly
/// the reported length, or one or two bytes more - and that second observation is the one handed to
/// the monitor: a caller who sizes the buffer to the packet is as entitled to the documented encoding
/// as one who passes 700 bytes (the encoders size nothing from the spare room). On the unchanged tree
/// every encoder accepts an exact-fit buffer (C16 observes that on every catalogue call).
///
/// One call in sixteen is repeated into a buffer 1-6 bytes *shorter* than the packet. No property says
/// what must happen then (the unchanged library panics; a refusal would be as good), so a refusal or a
/// panic there is not judged and the roomy observation is used. But if the encoder reports success -
/// Ok(m) - it claims to have encoded the message, and what it claims is judged like any other output
/// (a truncated body or a missing PEC is not the documented encoding).
pub fn observe(c: &Call, poison_seed: u64) -> EncObs {
    let (res, buf, poison) = encode_poisoned(c, CAP, poison_seed);
    if let Ok(Ok(n)) = &res {
        let h = crate::rng::hash_bytes(poison_seed ^ 0x7169_6774, &c.blob) ^ ((c.dest as u64) << 20) ^ ((c.own as u64) << 28);
        let h = crate::rng::hash_bytes(h ^ c.form as u64 ^ ((c.data32 as u64) << 8), &c.p);
        let sel = h % 48;
        if *n >= 10 && *n + 2 <= CAP {
            if sel < 16 {
                let (res, buf, poison) = encode_poisoned(c, *n + (sel % 3) as usize, poison_seed ^ 0x5EED);
                return EncObs { res, buf, poison, mode: "tight" };
            } else if sel >= 44 {
                // a landmark capacity, where a buffer length kept in a narrower integer would wrap
                const LANDMARKS: [usize; 8] = [255, 256, 257, 260, 511, 512, 1024, 4096];
                let l = LANDMARKS[(h / 48 % 8) as usize];
                if l >= *n {
                    let (res, buf, poison) = encode_poisoned(c, l, poison_seed ^ 0x1A2D);
                    return EncObs { res, buf, poison, mode: "landmark" };
                }
            } else if sel < 19 {
                let short = 1 + (h / 48 % 6) as usize;
                let (r2, b2, p2) = encode_poisoned(c, *n - short.min(*n - 1), poison_seed ^ 0x5407);
                if let Ok(Ok(_)) = r2 {
                    return EncObs { res: r2, buf: b2, poison: p2, mode: "short:claimed-ok" };
                }
                return EncObs { res, buf, poison, mode: "roomy:after-short-refused" };
            }
        }
    }
    EncObs { res, buf, poison, mode: "roomy" }
}

/// Record the per-form outcome class; returns the packet when there is one to judge.
pub fn note_outcome<'a>(rep: &mut Report, c: &Call, obs: &'a EncObs) -> Option<&'a [u8]> {
    rep.class(&format!("{}:{}", c.form.name(), obs.outcome_class()));
    rep.class(&format!("buffer:{}", obs.mode));
    match &obs.res {
        Ok(Ok(n)) if *n > obs.buf.len() || *n < 10 => {
            rep.class("reported-length-not-a-packet");
            None
        }
        _ => obs.packet(),
    }
}

pub fn len_bucket(n: usize) -> &'static str {
    match n {
        0..=9 => "len:0-9",
        10..=15 => "len:10-15",
        16..=31 => "len:16-31",
        32..=63 => "len:32-63",
        64..=127 => "len:64-127",
        128..=251 => "len:128-251",
        252..=255 => "len:252-255",
        256..=259 => "len:256-259",
        _ => "len:260+",
    }
}

pub fn sample_json(c: &Call, obs: &EncObs) -> crate::json::J {
    use crate::json::J;
    J::obj(vec![("call", J::s(c.describe())), ("observed", J::s(obs.brief()))])
}

/// Responder workload: the packets `process_packet` itself encodes. Forged requests (the answerable
/// forms, unsupported commands, out-of-range operations / selectors; every instance ID) are processed
/// on contexts with random valid configuration and state; `f(request, response, responder)` is
/// called for every response produced. Split over shards like the encoder plans.
pub fn for_each_response(cfg: &crate::RunCfg, label: &str, n: u64, f: &mut dyn FnMut(&[u8], &[u8], &crate::libapi::CtxCfg, &mut Report), rep: &mut Report) {
    use crate::libapi::*;
    use crate::refmodel::forge::ctrl_request;
    let mut rng = cfg.rng(label);
    let ns = cfg.nshards as u64;
    let per = (cfg.n(n) / ns).max(8);
    let mut rb = vec![0u8; 320];
    for k in 0..per {
        let mut c = CtxCfg::random(&mut rng, true);
        if k % 8 == 0 {
            c.addr = (k / 8 % 128) as u8;
        }
        let nsets = c.vendors.len() as u64;
        with_ctx(&c, |ctx| {
            // some state first
            if rng.chance(1, 2) {
                let p = ctrl_request(c.addr, rng.byte() & 0x7F, rng.byte() & 0x1F, false, 0x01, &[rng.below(2) as u8, rng.range(1, 0xFE) as u8]);
                let _ = process(ctx, &p, &mut rb);
            }
            for j in 0..6u64 {
                let src = if j == 0 { (k % 128) as u8 } else { rng.byte() & 0x7F };
                let iid = ((k + j) % 32) as u8;
                let req = match rng.below(14) {
                    0 => ctrl_request(c.addr, src, iid, false, 0x01, &[rng.below(2) as u8, rng.range(1, 0xFE) as u8]),
                    1 => ctrl_request(c.addr, src, iid, false, 0x01, &[3, rng.byte()]),
                    2 => ctrl_request(c.addr, src, iid, false, 0x01, &[rng.range(2, 255) as u8, rng.byte()]),
                    3 => ctrl_request(c.addr, src, iid, false, 0x02, &[]),
                    4 => ctrl_request(c.addr, src, iid, false, 0x03, &[]),
                    5 => ctrl_request(c.addr, src, iid, false, 0x04, &[rng.byte()]),
                    6 => ctrl_request(c.addr, src, iid, false, 0x05, &[]),
                    7 | 8 => ctrl_request(c.addr, src, iid, false, 0x06, &[rng.below(nsets) as u8]),
                    9 => ctrl_request(c.addr, src, iid, false, 0x06, &[rng.range(nsets, 255) as u8]),
                    10 => ctrl_request(c.addr, src, iid, false, 0x00, &[]),
                    11 => ctrl_request(c.addr, src, iid, false, 0x07, &[rng.byte()]),
                    12 => ctrl_request(c.addr, src, iid, false, 0x08, &[rng.byte(), rng.byte(), rng.byte()]),
                    _ => {
                        let cmd = rng.range(0x09, 0xFF) as u8;
                        let kk = rng.below(5) as usize;
                        let d = rng.bytes(kk);
                        ctrl_request(c.addr, src, iid, false, cmd, &d)
                    }
                };
                let mut req = req;
                if rng.chance(1, 3) {
                    // transport flags, datagram and reserved bits are not looked at by the decoder;
                    // another implementation may set them
                    req[7] = rng.byte();
                    if rng.chance(1, 2) {
                        req[9] |= 0x40;
                    }
                    if rng.chance(1, 3) {
                        req[9] |= 0x20;
                    }
                    crate::refmodel::forge::fix_pec(&mut req);
                }
                if rng.chance(1, 8) {
                    let _ = get_length(ctx, &req);
                }
                rng.fill(&mut rb);
                // one request in four is a retransmission: it is processed twice in a row and the
                // second answer - into a buffer that no longer holds the first - is the one judged
                if rng.chance(1, 4) {
                    let _ = process(ctx, &req, &mut rb);
                    rng.fill(&mut rb);
                    rep.class("responder:retransmitted-request");
                }
                if let ProcOut::Ok { resp: Some(l), .. } = process(ctx, &req, &mut rb) {
                    if l <= rb.len() && l >= 10 {
                        let resp = rb[..l].to_vec();
                        f(&req, &resp, &c, rep);
                    } else {
                        rep.class("responder:reported-length-not-a-packet");
                    }
                }
            }
        });
    }
}

/// Replay helper for responder cases "cfg|request-hex" (fresh context, request processed once).
pub fn replay_response(rest: &str, rep: &mut Report, f: &mut dyn FnMut(&[u8], &[u8], &crate::libapi::CtxCfg, &mut Report)) -> Result<(), String> {
    use crate::libapi::*;
    let (c, q) = rest.split_once('|').ok_or("bad responder case")?;
    let cfgc = CtxCfg::decode(c).ok_or("bad cfg")?;
    let req = crate::json::unhex(q).ok_or("bad hex")?;
    let mut rb = vec![0x5Au8; 320];
    with_ctx(&cfgc, |ctx| {
        if let ProcOut::Ok { resp: Some(l), .. } = process(ctx, &req, &mut rb) {
            if l <= rb.len() && l >= 10 {
                let resp = rb[..l].to_vec();
                f(&req, &resp, &cfgc, rep);
            }
        }
    });
    Ok(())
}
