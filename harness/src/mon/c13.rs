//! C13 — the endpoint's EID is the last one assigned, and nothing else changes it.

use super::hist::*;
use super::*;
use crate::json::J;
use crate::libapi::CtxCfg;
use crate::refmodel::endpoint::*;
use crate::rng::{hash_bytes, Rng};

pub fn mon() -> Mon {
    Mon {
        id: "C13",
        title: "The endpoint's EID is the last one assigned, and nothing else changes it",
        run,
        finish,
        replay,
        rule: "Seeded random histories (length 1-300 over two or three independent contexts interleaved; one in 40 is a single-context history of 300-800 operations), drawn from: Set Endpoint ID requests (Set / Force, EID 0x01-0xFE), Set-Discovered-Flag, Get Endpoint ID, the other identity queries, control responses (including Set Endpoint ID responses carrying an EID), PCI/IANA/SPDM/secured messages, PEC- and header-corrupted and truncated Set Endpoint ID requests, decode-only calls on all of those, set_eid on either half, get_length, Reset/reserved Set-EID operations, unsupported requests and random garbage; plus all sequences of length <= 4 over a 9-letter alphabet of those operation kinds, plus 'observe - N mutations - observe' histories for every N in 1..600 (and N = 65535, 65536, 65537 for the two pure mutators) and six mutator kinds (assignments, accessor writes, mixtures) with no other observation in between. After EVERY step both EID accessors are compared with a sequential model (two cells, assigned by accepted Set/Force requests and by accessor writes), and Set/Get Endpoint ID responses are compared with the model (Success + accepted + new EID; completion code 2 for Set-Discovered-Flag; current EID in Get Endpoint ID). A sample of histories is logged as JSONL and re-checked by an independent Python model. Non-trivial = a history in which at least one assignment and one non-assigning operation occurred; distinct = distinct histories (hash of all operations).",
        assumptions: &[
            "EID values 0x00 and 0xFF in Set Endpoint ID requests are outside the quantifier and not generated",
            "an accessor write changes the half it is called on; responses report the response half (the statement's 'value since stored directly through an accessor')",
            "Reset-EID and reserved operations are only required to leave the EID unchanged",
        ],
        children: rel_child_quarter,
    }
}

pub const WEIGHTS: [(Letter, u32); 15] = [
    (Letter::SetEid, 14),
    (Letter::SetDiscovered, 6),
    (Letter::GetEid, 12),
    (Letter::Query, 8),
    (Letter::ResponsePacket, 8),
    (Letter::VendorMsg, 6),
    (Letter::Corrupted, 10),
    (Letter::Truncated, 5),
    (Letter::DecodeOnly, 10),
    (Letter::Accessor, 6),
    (Letter::GetLength, 2),
    (Letter::SetEidOtherOp, 2),
    (Letter::OtherRequest, 4),
    (Letter::SetUuid, 1),
    (Letter::Garbage, 6),
];

/// What a history monitor judges: discrepancy categories, and the request commands whose
/// response-related discrepancies (no-response, wrong-command, malformed-response) it owns.
pub struct Owned {
    pub cats: &'static [&'static str],
    pub cmds: &'static [u8],
    /// must an accepted request of these commands be answered at all?
    pub must_answer: &'static [u8],
}

/// C13: both EID cells after every step; Set/Get Endpoint ID response content; an accepted
/// assignment must be answered (the statement says so), a Get Endpoint ID need not be.
const OWNED: Owned = Owned { cats: &["eid-cells", "set-eid-accepted", "set-discovered-flag", "get-eid", "no-response", "wrong-command", "malformed-response"], cmds: &[0x01, 0x02], must_answer: &[0x01] };

/// Execute a history on fresh contexts, judging every step. `letters[i]` names the class of op i
/// (for keys); when absent (replay) the op kind is used. Returns true if a discrepancy was found.
pub fn run_history(h: &History, letters: Option<&[Letter]>, owned: &Owned, prop_tag: u64, rep: &mut Report, trace_id: Option<u64>) -> bool {
    let mut models: Vec<Model> = h.cfgs.iter().map(Model::new).collect();
    let mut found = false;
    if let Some(id) = trace_id {
        let cfgs: Vec<J> = h
            .cfgs
            .iter()
            .map(|c| {
                J::obj(vec![
                    ("addr", J::u(c.addr as u64)),
                    ("types", J::s(crate::json::hex(&c.types))),
                    ("vendors", J::Arr(c.vendors.iter().map(|(f, d, n)| J::Arr(vec![J::u(*f as u64), J::u(*d as u64), J::u(*n as u64)])).collect())),
                ])
            })
            .collect();
        rep.trace_event(&J::obj(vec![("ev", J::s("start")), ("h", J::u(id)), ("cfgs", J::Arr(cfgs))]));
    }
    with_contexts(&h.cfgs, |ctxs| {
        for (i, (ci, op)) in h.ops.iter().enumerate() {
            let ci = *ci % ctxs.len();
            let exp = match op {
                Op::Process(x) => Some(models[ci].process(x)),
                o => {
                    models[ci].apply_non_packet(o);
                    None
                }
            };
            let others_before: Vec<(u8, u8)> = ctxs.iter().map(|c| crate::libapi::eids(c)).collect();
            // response buffer: 64..263 bytes; one step in five gets a buffer that fits the expected
            // response exactly (12 + data bytes), which is all a caller that knows the answer's size
            // needs to provide
            let mut rblen = 64 + (i * 37 + 11) % 200;
            if i % 5 == 2 {
                if let Some(Expect::Respond { data, exact: true, .. }) = &exp {
                    rblen = 12 + data.len();
                }
            }
            let obs = exec(&mut ctxs[ci], op, rblen, prop_tag ^ i as u64);
            rep.eval();
            if let Some(id) = trace_id {
                let (opk, inp) = match op {
                    Op::Process(x) => ("P", crate::json::hex(x)),
                    Op::Decode(x) => ("D", crate::json::hex(x)),
                    Op::GetLength(x) => ("L", crate::json::hex(x)),
                    Op::AccReq(v) => ("A", format!("{:02x}", v)),
                    Op::AccResp(v) => ("B", format!("{:02x}", v)),
                    Op::SetUuid(u) => ("U", crate::json::hex(u)),
                };
                let res = match (&obs.proc, &obs.dec, &obs.len) {
                    (Some(p), _, _) => p.class(),
                    (_, Some(d), _) => d.class(),
                    (_, _, Some(l)) => l.brief(),
                    _ => "-".into(),
                };
                rep.trace_event(&J::obj(vec![
                    ("ev", J::s("step")),
                    ("h", J::u(id)),
                    ("c", J::u(ci as u64)),
                    ("op", J::s(opk)),
                    ("in", J::s(inp)),
                    ("res", J::s(res)),
                    ("resp", obs.resp.as_ref().map(|r| J::s(crate::json::hex(r))).unwrap_or(J::Null)),
                    ("clean", J::Bool(obs.rb_clean)),
                    ("er", J::u(obs.eids.0 as u64)),
                    ("es", J::u(obs.eids.1 as u64)),
                ]));
            }
            // a store through one half's accessor: C13 speaks of "the EID" and of "a value since stored
            // directly through an accessor"; whether the other half sees that store is not fixed, so
            // both outcomes are accepted and the model follows the context
            if let Op::AccReq(v) | Op::AccResp(v) = op {
                if *v == 0x00 || *v == 0xFF {
                    // C13 quantifies accessor stores over EIDs 0x01-0xFE: whether the null or the
                    // broadcast EID is adopted is free (benign/C13-k ignores 0xFF)
                    models[ci].resync(obs.eids);
                    rep.class("accessor-store-of-eid-0x00-or-0xff:unjudged,model-resynchronised");
                } else if obs.eids == (*v, *v) && (models[ci].req_eid, models[ci].resp_eid) != (*v, *v) {
                    models[ci].resync(obs.eids);
                    rep.class("accessor-store-visible-through-both-halves:model-follows");
                }
            }
            if exp == Some(Expect::Resync) {
                models[ci].resync(obs.eids);
                rep.class("assignment-of-eid-0x00-or-0xff:unjudged,model-resynchronised");
            }
            let discs = judge(exp.as_ref(), &obs, &models[ci]);
            for d in discs {
                if !owned.cats.contains(&d.cat) {
                    continue;
                }
                if let Some(cmd) = d.cmd {
                    if !owned.cmds.contains(&cmd) || (d.cat == "no-response" && !owned.must_answer.contains(&cmd)) {
                        continue;
                    }
                }
                let class = match letters {
                    Some(ls) => ls[i].name(),
                    None => op.kind(),
                };
                found = true;
                rep.violation(
                    &format!("{}:after:{}", d.cat, class),
                    || format!("step {} ({} on context {}): {}; op {}", i, class, ci, d.detail, op.encode()),
                    || History { cfgs: h.cfgs.clone(), ops: h.ops[..=i].to_vec() }.encode(),
                );
            }
            if found {
                // the model and the context have diverged; later steps would only echo it
                break;
            }
            // cross-talk check (a `static` shared between contexts would show here): a step on one
            // context must not change the EID cells of another
            if owned.cats.contains(&"eid-cells") {
                for (k, c) in ctxs.iter().enumerate() {
                    if k != ci {
                        let e = crate::libapi::eids(c);
                        if e != others_before[k] {
                            found = true;
                            rep.violation(
                                "eid-cells:cross-talk-between-contexts",
                                || format!("step {} on context {} changed the EID cells of context {} from {:?} to {:?}", i, ci, k, others_before[k], e),
                                || History { cfgs: h.cfgs.clone(), ops: h.ops[..=i].to_vec() }.encode(),
                            );
                        }
                    }
                }
            }
            if found {
                break;
            }
        }
    });
    found
}

fn gen_history(rng: &mut Rng, len: usize, nctx: usize) -> (History, Vec<Letter>) {
    let cfgs: Vec<CtxCfg> = (0..nctx).map(|_| CtxCfg::random(rng, true)).collect();
    // the generator keeps its own copy of the model up to date so that later operations can refer
    // to the endpoint's current identity (UUID, EID)
    let mut models: Vec<Model> = cfgs.iter().map(Model::new).collect();
    let mut ops = Vec::with_capacity(len);
    let mut letters = Vec::with_capacity(len);
    for _ in 0..len {
        let ci = rng.below(nctx as u64) as usize;
        let l = pick_letter(rng, &WEIGHTS);
        let op = instantiate(l, rng, &models[ci]);
        match &op {
            Op::Process(x) => {
                let _ = models[ci].process(x);
            }
            o => models[ci].apply_non_packet(o),
        }
        ops.push((ci, op));
        letters.push(l);
    }
    (History { cfgs, ops }, letters)
}

fn nontrivial(letters: &[Letter]) -> bool {
    letters.contains(&Letter::SetEid) && letters.iter().any(|l| *l != Letter::SetEid)
}

fn run(cfg: &RunCfg) -> Report {
    let mut rep = Report::new();
    let mut rng = cfg.rng("c13");
    let ns = cfg.nshards as u64;
    let sh = cfg.shard as u64;
    let small = cfg.is_small();
    // exhaustive short histories over the 9-letter alphabet
    if !small {
        let mut idx = 0u64;
        let mut nhist = 0u64;
        for len in 1..=4usize {
            let total = 9usize.pow(len as u32);
            for code in 0..total {
                idx += 1;
                if idx % ns != sh {
                    continue;
                }
                let mut letters = Vec::with_capacity(len);
                let mut c = code;
                for _ in 0..len {
                    letters.push(ALPHABET9[c % 9]);
                    c /= 9;
                }
                let cfgs = vec![CtxCfg::random(&mut rng, true)];
                let m = Model::new(&cfgs[0]);
                let ops: Vec<(usize, Op)> = letters.iter().map(|l| (0usize, instantiate(*l, &mut rng, &m))).collect();
                let h = History { cfgs, ops };
                let tid = if sh == 0 { Some(1_000_000 + idx) } else { None };
                run_history(&h, Some(&letters), &OWNED, 0xC13, &mut rep, tid);
                nhist += 1;
                if nontrivial(&letters) {
                    rep.nontrivial(hash_bytes(13, h.encode().as_bytes()));
                }
            }
        }
        rep.class_n("short-exhaustive-histories", nhist);
    }
    // observe - N mutations - observe: a cached answer, a generation counter or anything else that
    // counts state changes in a byte goes wrong only for particular N (256, 512, ...). Every N from 1
    // to 600 is run for each mutator kind, with no other observation in between.
    if !small {
        let mut idx = 0u64;
        let mut nh = 0u64;
        for mutator in 0..6u8 {
            // every N up to 600, and the wrap points of a 16-bit counter for the two pure mutators
            let ns_list: Vec<usize> = if mutator <= 1 { (1..=600).chain([65_535usize, 65_536, 65_537]).collect() } else { (1..=600).collect() };
            for n in ns_list {
                idx += 1;
                if idx % ns != sh {
                    continue;
                }
                let cfgs = vec![CtxCfg::random(&mut rng, true)];
                let m = Model::new(&cfgs[0]);
                let own = cfgs[0].addr & 0x7F;
                let requester = rng.byte() & 0x7F;
                let observe = |rng: &mut Rng| {
                    Op::Process(if mutator == 4 {
                        // observe through a Set-Discovered-Flag response (reports the current EID too)
                        crate::refmodel::forge::ctrl_request(own, requester, 0, false, 0x01, &[3, rng.byte()])
                    } else {
                        crate::refmodel::forge::ctrl_request(own, requester, 0, false, 0x02, &[])
                    })
                };
                let mut ops: Vec<(usize, Op)> = Vec::with_capacity(n + 3);
                let mut letters: Vec<Letter> = Vec::with_capacity(n + 3);
                ops.push((0, instantiate(Letter::SetEid, &mut rng, &m)));
                letters.push(Letter::SetEid);
                ops.push((0, observe(&mut rng)));
                letters.push(Letter::GetEid);
                for _ in 0..n {
                    let l = match mutator {
                        0 | 4 | 5 => Letter::SetEid,
                        1 => Letter::Accessor,
                        2 => *rng.pick(&[Letter::SetEid, Letter::Accessor]),
                        _ => *rng.pick(&[Letter::SetEid, Letter::Corrupted, Letter::ResponsePacket, Letter::Query, Letter::SetDiscovered]),
                    };
                    let op = match (mutator, l) {
                        // mutator 1: response-half accessor writes only
                        (1, _) => Op::AccResp(rng.byte()),
                        // mutator 5: assignments from ONE requester with identical addresses, tag,
                        // instance ID and operation; only the EID and the destination EID byte vary,
                        // so many pairs of different requests share their 8-bit PEC
                        (5, _) => {
                            let mut p = crate::refmodel::forge::ctrl_request(own, requester, 3, false, 0x01, &[(n & 1) as u8, rng.range(1, 0xFE) as u8]);
                            p[5] = rng.byte();
                            crate::refmodel::forge::fix_pec(&mut p);
                            Op::Process(p)
                        }
                        _ => instantiate(l, &mut rng, &m),
                    };
                    ops.push((0, op));
                    letters.push(l);
                }
                ops.push((0, observe(&mut rng)));
                letters.push(Letter::GetEid);
                let h = History { cfgs, ops };
                run_history(&h, Some(&letters), &OWNED, 0xC13, &mut rep, None);
                nh += 1;
                rep.nontrivial(hash_bytes(0x1313, &[n as u8, (n >> 8) as u8, mutator]));
            }
        }
        rep.class_n("observe-N-mutations-observe-histories", nh);
    }
    // random histories
    let n = if small { 3 } else { cfg.n(cfg.pick(120_000, 6_000_000)) / ns };
    for k in 0..n {
        let len = match rng.below(4) {
            0 => 1 + rng.below(10) as usize,
            1 => 200 + rng.below(101) as usize,
            _ => 10 + rng.below(120) as usize,
        };
        // a few long single-context histories: anything counting operations in a byte wraps here
        let long = !small && rng.chance(1, 40);
        let len = if small { len.min(40) } else if long { 300 + rng.below(500) as usize } else { len };
        let nctx = if long { 1 } else { 2 + rng.below(2) as usize };
        let (h, letters) = gen_history(&mut rng, len, nctx);
        let tid = if sh == 0 && k < 300 { Some(k) } else { None };
        run_history(&h, Some(&letters), &OWNED, 0xC13, &mut rep, tid);
        rep.class("random-histories");
        for l in &letters {
            rep.class(&format!("op:{}", l.name()));
        }
        if nontrivial(&letters) {
            rep.nontrivial(hash_bytes(13, h.encode().as_bytes()));
        }
        if rep.want_sample() && len < 12 {
            rep.sample(|| {
                J::obj(vec![
                    ("history", J::s(h.encode())),
                    ("format", J::s("contexts 'addr/types-hex/format.id.value+...' joined by '~', then '#', then operations '<context index><P=process|D=decode|L=get_length|A=set_eid(request half)|B=set_eid(response half)|U=set_uuid>:<hex>'; every step was judged against the model")),
                ])
            });
        }
    }
    rep
}

fn finish(rep: &mut Report, cfg: &RunCfg) {
    if cfg.is_small() {
        return;
    }
    floor(rep, cfg, 5_000);
    if rep.classes.get("observe-N-mutations-observe-histories").copied().unwrap_or(0) == 3606 {
        rep.exhaustive_spaces.push("every number N in 1..=600 of state changes between two observations of the EID, for 6 mutator kinds".into());
    } else {
        rep.inconclusive.push("observe-N-mutations-observe sweep incomplete".into());
    }
    if rep.classes.get("short-exhaustive-histories").copied().unwrap_or(0) == 9 + 81 + 729 + 6561 {
        rep.exhaustive_spaces.push("all 7380 operation-kind sequences of length <= 4 over a 9-letter alphabet (parameters random)".into());
    } else {
        rep.inconclusive.push("short exhaustive histories incomplete".into());
    }
}

fn replay(case: &str, rep: &mut Report) -> Result<(), String> {
    let h = History::decode(case).ok_or("cannot parse history")?;
    run_history(&h, None, &OWNED, 0xC13, rep, None);
    Ok(())
}
