//! C15 — the responder reports the identity it was configured with.

use super::c13::run_history;
use super::hist::*;
use super::*;
use crate::json::J;
use crate::libapi::*;
use crate::refmodel::endpoint::*;
use crate::refmodel::forge::ctrl_request;
use crate::rng::{hash_bytes, Rng};

pub fn mon() -> Mon {
    Mon {
        id: "C15",
        title: "The responder reports the identity it was configured with",
        run,
        finish,
        replay,
        rule: "Configurations with every message-type list length 0..30 (random contents including 0x00, 0xFF and duplicates) and random vendor sets; histories of 10-120 operations (one in 40: 300-800 operations on one context) mixing 0-10 set_uuid calls, the three identity queries (Get Message Type Support, Get Endpoint UUID, Get MCTP Version Support with every query byte) and the C13 traffic mix (assignments, other queries, responses, vendor messages, corrupted/truncated packets, decode-only calls, accessor writes, garbage) on two interleaved contexts; plus 'observe - N mutations - observe' histories for every N in 1..600 (UUID updates, or other traffic, between two identical queries from the same requester). Every response to the three queries is compared byte-for-byte and with exact length against the model: [0, n, types...], [0, the 16 bytes last installed (zero before any)], [0, 1, F1, F3, F1, 00]. A sample is logged as JSONL and re-checked in Python. Non-trivial = a history containing at least one of the three queries and at least one other operation; distinct = distinct histories.",
        assumptions: &["message-type lists of at most 30 entries (the documented bound)", "set_uuid is given exactly 16 bytes"],
        children: rel_child_quarter,
    }
}

const OWNED: super::c13::Owned = super::c13::Owned { cats: &["get-uuid", "get-version", "get-types", "no-response", "wrong-command", "malformed-response"], cmds: &[0x03, 0x04, 0x05], must_answer: &[0x03, 0x04, 0x05] };

const TRAFFIC: [(Letter, u32); 14] = [
    (Letter::SetEid, 6),
    (Letter::SetDiscovered, 2),
    (Letter::GetEid, 4),
    (Letter::Query, 6),
    (Letter::ResponsePacket, 6),
    (Letter::VendorMsg, 4),
    (Letter::Corrupted, 5),
    (Letter::Truncated, 3),
    (Letter::DecodeOnly, 6),
    (Letter::Accessor, 3),
    (Letter::SetEidOtherOp, 1),
    (Letter::OtherRequest, 3),
    (Letter::SetUuid, 5),
    (Letter::Garbage, 4),
];

fn identity_query(rng: &mut Rng, own: u8) -> Vec<u8> {
    let (s, iid) = (rng.byte() & 0x7F, rng.byte() & 0x1F);
    match rng.below(3) {
        0 => ctrl_request(own & 0x7F, s, iid, false, 0x03, &[]),
        1 => ctrl_request(own & 0x7F, s, iid, false, 0x04, &[rng.edgy_byte()]),
        _ => ctrl_request(own & 0x7F, s, iid, false, 0x05, &[]),
    }
}

fn gen_cfg(rng: &mut Rng, ntypes: usize) -> CtxCfg {
    let mut types = rng.bytes(ntypes);
    for t in types.iter_mut() {
        if rng.chance(1, 6) {
            *t = *rng.pick(&[0x00u8, 0xFF, 0x7E, 0x7F, 0x05]);
        }
    }
    if ntypes >= 2 && rng.chance(1, 3) {
        types[1] = types[0];
    }
    let mut c = CtxCfg::random(rng, true);
    c.types = types;
    c
}

fn one_history(rng: &mut Rng, ntypes: usize, rep: &mut Report, trace: Option<u64>, maxlen: usize) {
    let nt2 = rng.below(31) as usize;
    let cfgs = vec![gen_cfg(rng, ntypes), gen_cfg(rng, nt2)];
    let mut models: Vec<Model> = cfgs.iter().map(Model::new).collect();
    let long = maxlen >= 1000 && rng.chance(1, 40);
    let len = if long { 300 + rng.below(500) as usize } else { (10 + rng.below(111) as usize).min(maxlen) };
    let mut ops = Vec::with_capacity(len);
    let mut letters = Vec::with_capacity(len);
    let mut queries = 0;
    for _ in 0..len {
        let ci = if long || rng.chance(3, 4) { 0 } else { 1 };
        if rng.chance(1, 3) {
            ops.push((ci, Op::Process(identity_query(rng, cfgs[ci].addr))));
            letters.push(Letter::Query);
            queries += 1;
        } else {
            let l = pick_letter(rng, &TRAFFIC);
            let op = instantiate(l, rng, &models[ci]);
            models[ci].apply_non_packet(&op);
            ops.push((ci, op));
            letters.push(l);
        }
    }
    let h = History { cfgs, ops };
    run_history(&h, Some(&letters), &OWNED, 0xC15, rep, trace);
    rep.class(&format!("types-len:{}", ntypes));
    if queries > 0 && queries < len {
        rep.nontrivial(hash_bytes(15, h.encode().as_bytes()));
    }
    if rep.want_sample() && len <= 12 {
        rep.sample(|| {
                J::obj(vec![
                    ("history", J::s(h.encode())),
                    ("format", J::s("contexts 'addr/types-hex/format.id.value+...' joined by '~', then '#', then operations '<context index><P=process|D=decode|L=get_length|A=set_eid(request half)|B=set_eid(response half)|U=set_uuid>:<hex>'; every step was judged against the model")),
                ])
            });
    }
}

fn run(cfg: &RunCfg) -> Report {
    let mut rep = Report::new();
    let mut rng = cfg.rng("c15");
    let ns = cfg.nshards as u64;
    let sh = cfg.shard as u64;
    let small = cfg.is_small();
    let per_len = if small { 1 } else { cfg.n(cfg.pick(2000, 100_000)) };
    if !small {
        wrap_histories(cfg, &mut rng, &mut rep);
    }
    let mut idx = 0u64;
    for ntypes in 0..=30usize {
        for k in 0..per_len {
            idx += 1;
            if idx % ns != sh {
                continue;
            }
            let tid = if sh == 0 && k < 48 { Some(idx) } else { None };
            one_history(&mut rng, ntypes, &mut rep, tid, if small { 20 } else { 1000 });
        }
        if small && ntypes >= 2 {
            break;
        }
    }
    rep
}

/// observe - N mutations - observe for the identity answers: every N in 1..=600.
fn wrap_histories(cfg: &RunCfg, rng: &mut Rng, rep: &mut Report) {
    let ns = cfg.nshards as u64;
    let sh = cfg.shard as u64;
    let mut idx = 0u64;
    let mut nh = 0u64;
    for kind in 0..3u8 {
        for n in 1..=600usize {
            idx += 1;
            if idx % ns != sh {
                continue;
            }
            let cfgs = vec![gen_cfg(rng, n % 31)];
            let m = Model::new(&cfgs[0]);
            let own = cfgs[0].addr & 0x7F;
            let requester = rng.byte() & 0x7F;
            let cmd = [0x03u8, 0x05, 0x04][kind as usize];
            let q = || Op::Process(ctrl_request(own, requester, 0, false, cmd, if cmd == 0x04 { &[0xFF][..] } else { &[][..] }));
            let mut ops: Vec<(usize, Op)> = Vec::with_capacity(n + 3);
            let mut letters: Vec<Letter> = Vec::with_capacity(n + 3);
            ops.push((0, instantiate(Letter::SetUuid, rng, &m)));
            letters.push(Letter::SetUuid);
            ops.push((0, q()));
            letters.push(Letter::Query);
            for _ in 0..n {
                let l = match kind {
                    0 => Letter::SetUuid,
                    1 => *rng.pick(&[Letter::SetEid, Letter::Query, Letter::Corrupted, Letter::VendorMsg]),
                    _ => *rng.pick(&[Letter::SetUuid, Letter::SetEid, Letter::OtherRequest, Letter::Accessor]),
                };
                // the mutations must not contain the observed query itself
                let mut op = instantiate(l, rng, &m);
                if let Op::Process(p) = &op {
                    if p.len() > 10 && p[8] == 0 && p[9] & 0x80 != 0 && p[10] == cmd {
                        op = Op::Process(ctrl_request(own, requester, 1, false, 0x02, &[]));
                    }
                }
                ops.push((0, op));
                letters.push(l);
            }
            ops.push((0, q()));
            letters.push(Letter::Query);
            let h = History { cfgs, ops };
            run_history(&h, Some(&letters), &OWNED, 0xC15, rep, None);
            nh += 1;
        }
    }
    rep.class_n("observe-N-mutations-observe-histories", nh);
}

fn finish(rep: &mut Report, cfg: &RunCfg) {
    if cfg.is_small() {
        return;
    }
    floor(rep, cfg, 3_000);
    for n in 0..=30 {
        if !rep.classes.contains_key(&format!("types-len:{}", n)) {
            rep.inconclusive.push(format!("no history with a {}-entry message type list", n));
        }
    }
}

fn replay(case: &str, rep: &mut Report) -> Result<(), String> {
    let h = History::decode(case).ok_or("cannot parse history")?;
    run_history(&h, None, &OWNED, 0xC15, rep, None);
    Ok(())
}
