//! The encoder catalogue: every encoder invocation as data (`Call`), `invoke()` to run the library
//! under the panic trap and `expected()` to ask the forge what the bytes should be.
//!
//! 32 call forms: 17 control requests, vendor_defined, 6 control responses, and the four public
//! trait-level generators on both halves. The three request methods whose body ends in
//! unimplemented!() (request_tx_rate_limit, update_rate_limmit, query_supported_interfaces) are
//! stubs that can never return, not encoders; C06 says "17 implemented". They are excluded.

use crate::json::{hex, unhex};
use crate::refmodel::wire::*;
use crate::rng::Rng;
use crate::trap::{trap, PanicSig};
use libmctp::base_packet::MessageType;
use libmctp::control_packet::*;
use libmctp::mctp_traits::SMBusMCTPRequestResponse;
use libmctp::smbus::MCTPSMBusContext;
use libmctp::smbus_proto::SMBusRoutingInformationUpdateEntry;
use libmctp::vendor_packets::VendorIDFormat;

#[derive(Clone, Copy, Debug, PartialEq, Eq, Hash, PartialOrd, Ord)]
#[repr(u8)]
pub enum Form {
    SetEid = 0,
    GetEid,
    GetUuid,
    GetVer,
    GetTypes,
    GetVendor,
    ResolveEid,
    AllocEids,
    RoutingUpdate,
    GetRouting,
    PrepDisc,
    EpDisc,
    DiscNotify,
    GetNetId,
    QueryHop,
    ResolveUuid,
    QueryRate,
    VendorDefined,
    RSetEid,
    RGetEid,
    RGetUuid,
    RGetVer,
    RGetTypes,
    RGetVendor,
    GenControlReq,
    GenControlResp,
    GenPciReq,
    GenPciResp,
    GenIanaReq,
    GenIanaResp,
    GenSpdmReq,
    GenSpdmResp,
}

pub const ALL_FORMS: [Form; 32] = [
    Form::SetEid,
    Form::GetEid,
    Form::GetUuid,
    Form::GetVer,
    Form::GetTypes,
    Form::GetVendor,
    Form::ResolveEid,
    Form::AllocEids,
    Form::RoutingUpdate,
    Form::GetRouting,
    Form::PrepDisc,
    Form::EpDisc,
    Form::DiscNotify,
    Form::GetNetId,
    Form::QueryHop,
    Form::ResolveUuid,
    Form::QueryRate,
    Form::VendorDefined,
    Form::RSetEid,
    Form::RGetEid,
    Form::RGetUuid,
    Form::RGetVer,
    Form::RGetTypes,
    Form::RGetVendor,
    Form::GenControlReq,
    Form::GenControlResp,
    Form::GenPciReq,
    Form::GenPciResp,
    Form::GenIanaReq,
    Form::GenIanaResp,
    Form::GenSpdmReq,
    Form::GenSpdmResp,
];

pub const REQUEST_FORMS: [Form; 17] = [
    Form::SetEid,
    Form::GetEid,
    Form::GetUuid,
    Form::GetVer,
    Form::GetTypes,
    Form::GetVendor,
    Form::ResolveEid,
    Form::AllocEids,
    Form::RoutingUpdate,
    Form::GetRouting,
    Form::PrepDisc,
    Form::EpDisc,
    Form::DiscNotify,
    Form::GetNetId,
    Form::QueryHop,
    Form::ResolveUuid,
    Form::QueryRate,
];

/// Requests a conversation starts with (weighted towards the ones about addresses, EIDs and routes).
pub const CONVERSATION_FORMS: [Form; 24] = [
    Form::SetEid,
    Form::SetEid,
    Form::GetEid,
    Form::GetEid,
    Form::GetUuid,
    Form::GetVer,
    Form::GetTypes,
    Form::GetVendor,
    Form::ResolveEid,
    Form::ResolveEid,
    Form::ResolveEid,
    Form::AllocEids,
    Form::AllocEids,
    Form::RoutingUpdate,
    Form::GetRouting,
    Form::GetRouting,
    Form::PrepDisc,
    Form::EpDisc,
    Form::DiscNotify,
    Form::GetNetId,
    Form::QueryHop,
    Form::ResolveUuid,
    Form::ResolveUuid,
    Form::QueryRate,
];

pub const RESPONSE_FORMS: [Form; 6] =
    [Form::RSetEid, Form::RGetEid, Form::RGetUuid, Form::RGetVer, Form::RGetTypes, Form::RGetVendor];

/// Forms whose body length is caller-controlled (used for length sweeps).
pub const VARIABLE_FORMS: [Form; 9] = [
    Form::VendorDefined,
    Form::GenControlReq,
    Form::GenControlResp,
    Form::GenPciReq,
    Form::GenPciResp,
    Form::GenIanaReq,
    Form::GenIanaResp,
    Form::GenSpdmReq,
    Form::GenSpdmResp,
];

impl Form {
    pub fn name(self) -> &'static str {
        match self {
            Form::SetEid => "req.set_endpoint_id",
            Form::GetEid => "req.get_endpoint_id",
            Form::GetUuid => "req.get_endpoint_uuid",
            Form::GetVer => "req.get_mctp_version_support",
            Form::GetTypes => "req.get_message_type_suport",
            Form::GetVendor => "req.get_vendor_defined_message_support",
            Form::ResolveEid => "req.resolve_endpoint_id",
            Form::AllocEids => "req.allocate_endpoint_ids",
            Form::RoutingUpdate => "req.routing_information_update",
            Form::GetRouting => "req.get_routing_table_entries",
            Form::PrepDisc => "req.prepare_for_endpoint_discovery",
            Form::EpDisc => "req.endpoint_discovery",
            Form::DiscNotify => "req.discovery_notify",
            Form::GetNetId => "req.get_network_id",
            Form::QueryHop => "req.query_hop",
            Form::ResolveUuid => "req.resolve_uuid",
            Form::QueryRate => "req.query_rate_limit",
            Form::VendorDefined => "req.vendor_defined",
            Form::RSetEid => "resp.set_endpoint_id",
            Form::RGetEid => "resp.get_endpoint_id",
            Form::RGetUuid => "resp.get_endpoint_uuid",
            Form::RGetVer => "resp.get_mctp_version_support",
            Form::RGetTypes => "resp.get_message_type_suport",
            Form::RGetVendor => "resp.get_vendor_defined_message_support",
            Form::GenControlReq => "req.generate_control_packet_bytes",
            Form::GenControlResp => "resp.generate_control_packet_bytes",
            Form::GenPciReq => "req.generate_pci_msg_packet_bytes",
            Form::GenPciResp => "resp.generate_pci_msg_packet_bytes",
            Form::GenIanaReq => "req.generate_iana_msg_packet_bytes",
            Form::GenIanaResp => "resp.generate_iana_msg_packet_bytes",
            Form::GenSpdmReq => "req.generate_spdm_msg_packet_bytes",
            Form::GenSpdmResp => "resp.generate_spdm_msg_packet_bytes",
        }
    }
    pub fn from_index(i: usize) -> Form {
        ALL_FORMS[i]
    }
    pub fn is_request(self) -> bool {
        (self as u8) <= Form::QueryRate as u8
    }
    pub fn is_response(self) -> bool {
        (self as u8) >= Form::RSetEid as u8 && (self as u8) <= Form::RGetVendor as u8
    }
    pub fn is_gen(self) -> bool {
        (self as u8) >= Form::GenControlReq as u8
    }
    pub fn on_response_half(self) -> bool {
        self.is_response()
            || matches!(self, Form::GenControlResp | Form::GenPciResp | Form::GenIanaResp | Form::GenSpdmResp)
    }
    /// DSP0236 command code for request/response forms
    pub fn command_code(self) -> Option<u8> {
        Some(match self {
            Form::SetEid | Form::RSetEid => 0x01,
            Form::GetEid | Form::RGetEid => 0x02,
            Form::GetUuid | Form::RGetUuid => 0x03,
            Form::GetVer | Form::RGetVer => 0x04,
            Form::GetTypes | Form::RGetTypes => 0x05,
            Form::GetVendor | Form::RGetVendor => 0x06,
            Form::ResolveEid => 0x07,
            Form::AllocEids => 0x08,
            Form::RoutingUpdate => 0x09,
            Form::GetRouting => 0x0A,
            Form::PrepDisc => 0x0B,
            Form::EpDisc => 0x0C,
            Form::DiscNotify => 0x0D,
            Form::GetNetId => 0x0E,
            Form::QueryHop => 0x0F,
            Form::ResolveUuid => 0x10,
            Form::QueryRate => 0x11,
            _ => return None,
        })
    }
    /// Domain size of each small parameter p[0..4] (0 = unused).
    pub fn domains(self) -> [u16; 4] {
        match self {
            Form::SetEid => [4, 256, 0, 0],
            Form::GetVer => [5, 0, 0, 0],
            Form::GetVendor | Form::ResolveEid | Form::GetRouting => [256, 0, 0, 0],
            Form::AllocEids => [3, 256, 256, 0],
            Form::RoutingUpdate => [2, 0, 0, 0],
            Form::QueryHop => [256, 6, 0, 0],
            Form::ResolveUuid => [256, 0, 0, 0],
            Form::VendorDefined => [256, 0, 0, 0],
            Form::RSetEid => [6, 2, 3, 0],
            Form::RGetEid => [6, 2, 4, 2],
            Form::RGetUuid | Form::RGetVer | Form::RGetTypes => [6, 0, 0, 0],
            Form::RGetVendor => [6, 256, 0, 0],
            Form::GenSpdmReq | Form::GenSpdmResp => [2, 0, 0, 0],
            _ => [0, 0, 0, 0],
        }
    }
}

/// One encoder invocation with all its arguments.
#[derive(Clone, Debug, PartialEq, Eq)]
pub struct Call {
    pub form: Form,
    /// the encoding context's own address
    pub own: u8,
    /// destination named by the caller
    pub dest: u8,
    /// small parameters (enum indices / byte arguments), see Form::domains
    pub p: [u8; 4],
    /// UUID / routing entries / type list / vendor field / message body
    pub blob: Vec<u8>,
    /// optional message header for the trait-level generators
    pub hdr: Option<Vec<u8>>,
    /// VendorIDFormat.data / numeric_value for vendor_defined
    pub data32: u32,
    pub num16: u16,
    /// EID stored through set_eid on the half the encoder reads from, and on the other half
    pub eid_this: u8,
    pub eid_other: u8,
    /// 0 = fresh context; otherwise the seed of a short prior history (processed packets with
    /// hostile header bits, instance IDs, assignments, decode/get_length calls) run on the encoding
    /// context before the call. After the history the EID cells are set as eid_this/eid_other say.
    pub hist: u64,
}

impl Call {
    pub fn new(form: Form, own: u8, dest: u8) -> Self {
        Call { form, own, dest, p: [0; 4], blob: Vec::new(), hdr: None, data32: 0, num16: 0, eid_this: 0, eid_other: 0, hist: 0 }
    }

    /// Compact, replayable encoding.
    pub fn encode(&self) -> String {
        format!(
            "f={};own={:02x};dst={:02x};p={};blob={};hdr={};d32={:x};n16={:x};et={:02x};eo={:02x};h={:x}",
            self.form as u8,
            self.own,
            self.dest,
            hex(&self.p),
            hex(&self.blob),
            match &self.hdr {
                None => "-".to_string(),
                Some(h) => hex(h),
            },
            self.data32,
            self.num16,
            self.eid_this,
            self.eid_other,
            self.hist
        )
    }

    pub fn decode(s: &str) -> Option<Call> {
        let mut c = Call::new(Form::GetEid, 0, 0);
        for kv in s.split(';') {
            let (k, v) = kv.split_once('=')?;
            match k {
                "f" => c.form = *ALL_FORMS.get(v.parse::<usize>().ok()?)?,
                "own" => c.own = u8::from_str_radix(v, 16).ok()?,
                "dst" => c.dest = u8::from_str_radix(v, 16).ok()?,
                "p" => {
                    let b = unhex(v)?;
                    if b.len() != 4 {
                        return None;
                    }
                    c.p.copy_from_slice(&b);
                }
                "blob" => c.blob = unhex(v)?,
                "hdr" => c.hdr = if v == "-" { None } else { Some(unhex(v)?) },
                "d32" => c.data32 = u32::from_str_radix(v, 16).ok()?,
                "n16" => c.num16 = u16::from_str_radix(v, 16).ok()?,
                "et" => c.eid_this = u8::from_str_radix(v, 16).ok()?,
                "eo" => c.eid_other = u8::from_str_radix(v, 16).ok()?,
                "h" => c.hist = u64::from_str_radix(v, 16).ok()?,
                _ => return None,
            }
        }
        Some(c)
    }

    pub fn describe(&self) -> String {
        format!("{}({})", self.form.name(), self.encode())
    }

    /// Random call of a given form. `addr7`: restrict own/dest to 7-bit values.
    /// `max_body`: upper bound for caller-controlled body sizes.
    pub fn random(form: Form, rng: &mut Rng, addr7: bool, max_body: usize) -> Call {
        let mut c = Call::new(form, rng.byte(), rng.byte());
        if addr7 {
            c.own &= 0x7F;
            c.dest &= 0x7F;
        }
        let dom = form.domains();
        for i in 0..4 {
            if dom[i] > 0 {
                c.p[i] = rng.below(dom[i] as u64) as u8;
            }
        }
        c.eid_this = rng.edgy_byte();
        c.eid_other = rng.edgy_byte();
        match rng.below(12) {
            0 => c.eid_this = c.own,
            1 => c.eid_this = c.dest,
            2 => c.dest = c.own,
            _ => {}
        }
        if rng.chance(1, 3) {
            c.hist = rng.next() | 1;
        }
        c.data32 = rng.next() as u32;
        c.num16 = rng.next() as u16;
        match form {
            Form::SetEid => {
                // mostly valid EIDs, sometimes the reserved ones
                c.p[1] = match rng.below(16) {
                    0 => 0x00,
                    1 => 0xFF,
                    2 => 0x01,
                    3 => 0xFE,
                    _ => rng.range(1, 0xFE) as u8,
                };
            }
            Form::RoutingUpdate => {
                let n = match rng.below(10) {
                    0 => rng.range(8, 10) as usize,
                    _ => rng.below(8) as usize,
                };
                c.blob = routing_entries(rng, n);
                // an entry that describes the sender itself (its EID and physical address)
                if n > 0 && rng.chance(1, 4) {
                    let k = rng.below(n as u64) as usize;
                    let ty = if rng.chance(1, 2) { 0 } else { rng.byte() & 3 };
                    c.blob[4 * k..4 * k + 4].copy_from_slice(&[ty, 1 + rng.below(4) as u8, c.eid_this, c.own]);
                }
            }
            Form::ResolveUuid | Form::RGetUuid => c.blob = rng.pattern_bytes(16),
            Form::RGetTypes => {
                let n = match rng.below(40) {
                    0..=3 => rng.range(31, 34) as usize,
                    4 => 256 + rng.below(40) as usize,
                    5 => *rng.pick(&[255usize, 256, 286, 287, 512, 542]),
                    6..=9 => *rng.pick(&[0usize, 1, 29, 30]),
                    _ => rng.below(31) as usize,
                };
                c.blob = rng.pattern_bytes(n);
            }
            Form::RGetVendor => {
                let n = rng.below(8) as usize;
                c.blob = rng.pattern_bytes(n);
            }
            Form::VendorDefined => {
                c.p[0] = match rng.below(8) {
                    0 => rng.byte(),
                    1 => 2,
                    _ => rng.below(2) as u8,
                };
                let n = body_len(rng, max_body);
                c.blob = rng.pattern_bytes(n);
                // a message that itself starts with the framing about to be written (a relayed
                // message): type byte and/or vendor ID as the first bytes of the body
                if rng.chance(1, 6) {
                    let mut pre: Vec<u8> = Vec::new();
                    if rng.chance(2, 3) {
                        pre.push(if c.p[0] == 0 { TY_PCI } else { TY_IANA });
                    }
                    if c.p[0] == 0 {
                        pre.extend_from_slice(&[(c.data32 >> 8) as u8, c.data32 as u8]);
                    } else {
                        pre.extend_from_slice(&c.data32.to_be_bytes());
                    }
                    let k = pre.len().min(c.blob.len());
                    c.blob[..k].copy_from_slice(&pre[..k]);
                }
            }
            f if f.is_gen() => {
                c.hdr = match rng.below(4) {
                    0 => None,
                    _ => {
                        let hl = rng.below(9) as usize;
                        Some(rng.bytes(hl))
                    }
                };
                if matches!(f, Form::GenControlReq | Form::GenControlResp) && rng.chance(1, 2) {
                    c.hdr = Some(rng.bytes(2));
                }
                // the canonical header of the raw vendor generators (the vendor ID itself) half the time
                if matches!(f, Form::GenPciReq | Form::GenPciResp) && rng.chance(1, 2) {
                    c.hdr = Some(rng.bytes(2));
                }
                if matches!(f, Form::GenIanaReq | Form::GenIanaResp) && rng.chance(1, 2) {
                    c.hdr = Some(rng.bytes(4));
                }
                let n = body_len(rng, max_body);
                c.blob = rng.pattern_bytes(n);
            }
            _ => {}
        }
        c
    }
}

/// `n` routing entries (4 bytes each: type, range size, first EID, physical address). Half of the
/// time the entries are *related* the way a real routing table's are: same type and address,
/// contiguous or overlapping EID ranges, exact duplicates, sorted or reversed order.
pub fn routing_entries(rng: &mut Rng, n: usize) -> Vec<u8> {
    let mut v: Vec<[u8; 4]> = Vec::with_capacity(n);
    let related = rng.chance(1, 2);
    for i in 0..n {
        if i == 0 || !related {
            let mut e = [rng.byte(), rng.byte(), rng.byte(), rng.byte()];
            if related {
                e[0] &= 0x03;
                e[1] = 1 + rng.below(16) as u8;
            }
            v.push(e);
            continue;
        }
        let p = v[i - 1];
        let e = match rng.below(8) {
            // contiguous range behind the same bridge / address
            0 | 1 | 2 => [p[0], if rng.chance(1, 2) { p[1] } else { 1 + rng.below(16) as u8 }, p[2].wrapping_add(p[1]), p[3]],
            // exact duplicate
            3 => p,
            // same range, other address / other type
            4 => [p[0], p[1], p[2], rng.byte()],
            5 => [(p[0] + 1) & 3, p[1], p[2], p[3]],
            // overlapping or preceding range
            6 => [p[0], p[1], p[2].wrapping_sub(p[1]), p[3]],
            _ => [rng.byte() & 3, rng.byte(), rng.byte(), rng.byte()],
        };
        v.push(e);
    }
    if related && rng.chance(1, 4) {
        v.reverse();
    }
    v.into_iter().flatten().collect()
}

fn body_len(rng: &mut Rng, max_body: usize) -> usize {
    match rng.below(6) {
        0 => rng.below(4) as usize,
        1 => max_body.saturating_sub(rng.below(4) as usize),
        _ => rng.below(max_body as u64 + 1) as usize,
    }
}

pub fn cc_variant(i: u8) -> CompletionCode {
    match i {
        0 => CompletionCode::Success,
        1 => CompletionCode::Error,
        2 => CompletionCode::ErrorInvalidData,
        3 => CompletionCode::ErrorInvalidLength,
        4 => CompletionCode::ErrorNotReady,
        _ => CompletionCode::ErrorUnsupportedCmd,
    }
}

pub fn msg_type_variant(i: u8) -> MessageType {
    match i {
        0 => MessageType::MCtpControl,
        1 => MessageType::SpdmOverMctp,
        2 => MessageType::SecuredMessages,
        3 => MessageType::VendorDefinedPCI,
        4 => MessageType::VendorDefinedIANA,
        _ => MessageType::Invalid,
    }
}

fn route_type_variant(i: u8) -> RoutingInformationUpdateEntryType {
    match i & 3 {
        0 => RoutingInformationUpdateEntryType::SingleEndpointNotBridge,
        1 => RoutingInformationUpdateEntryType::EIDRangeIncludeBridge,
        2 => RoutingInformationUpdateEntryType::SingleEndpointBridge,
        _ => RoutingInformationUpdateEntryType::EIDRangeNotIncludeBridge,
    }
}

/// Run the library encoder described by `c` into `buf`, on a context whose EID cells were set
/// through the public accessors. Panics are trapped.
pub fn invoke(c: &Call, buf: &mut [u8]) -> Result<Result<usize, ()>, PanicSig> {
    let types: [u8; 1] = [0x7E];
    let vendors = [VendorIDFormat { format: 0, data: 0x1414, numeric_value: 4 }];
    let mut ctx = MCTPSMBusContext::new(c.own, &types, &vendors);
    if c.hist != 0 {
        run_history(&mut ctx, c.own, c.dest, c.hist);
    }
    invoke_on(&ctx, c, buf, true)
}

/// A short hostile history on the encoding context: requests with arbitrary transport flags,
/// instance IDs, datagram / reserved bits, assignments, responses, vendor messages, corrupted
/// packets, decode-only and get_length calls, a UUID update. Panics are trapped and ignored here
/// (C10 judges them); what matters is the state left behind.
pub fn run_history(ctx: &mut MCTPSMBusContext, own: u8, dest: u8, seed: u64) {
    use crate::refmodel::forge::*;
    let mut rng = Rng::new(seed);
    let mut rb = [0u8; 96];
    let n = 1 + rng.below(5);
    // earlier *encodes* on the same context are history too (a per-context sequence number, tag or
    // cache would show in the next packet): usually a few, sometimes a few hundred
    let encodes = match rng.below(12) {
        0 => 250 + rng.below(80),
        1..=4 => 1 + rng.below(6),
        _ => 0,
    };
    let mut scratch = [0u8; 300];
    for _ in 0..encodes {
        let form = *rng.pick(&ALL_FORMS);
        let mut c = Call::random(form, &mut rng, false, 40);
        c.hist = 0;
        let _ = invoke_on(ctx, &c, &mut scratch, rng.chance(1, 2));
    }
    // conversations: the context asks a peer something (any request encoder, arguments often related
    // to the address the judged call is about to use) and then receives the peer's Success response to
    // exactly that command, with plausible field lengths and content again related to those addresses.
    // A requester that "learns" from what it asked and what it was told (routes, assigned or resolved
    // EIDs, pool allocations) carries that into the next packet it encodes.
    let convs = if rng.chance(1, 3) { 1 + rng.below(3) } else { 0 };
    for _ in 0..convs {
        let related = [dest, dest & 0x7F, own, own & 0x7F, dest.wrapping_shl(1), 0x00, 0xFF];
        let form = *rng.pick(&CONVERSATION_FORMS);
        let mut q = Call::random(form, &mut rng, false, 24);
        q.hist = 0;
        let peer = if rng.chance(1, 2) { dest } else { rng.byte() & 0x7F };
        q.dest = peer;
        for i in 0..4 {
            if rng.chance(1, 2) {
                q.p[i] = *rng.pick(&related);
            }
        }
        let r = invoke_on(ctx, &q, &mut scratch, false);
        let (cmd, iid) = match r {
            Ok(Ok(m)) if m >= 12 && m <= scratch.len() && scratch[8] == 0 => (scratch[10], scratch[9] & 0x1F),
            _ => continue,
        };
        let len = match cmd {
            0x01 => 3,
            0x02 => 3 + rng.below(2) as usize,
            0x03 => 16,
            0x04 => 1 + 4 * rng.below(3) as usize,
            0x05 => 1 + rng.below(6) as usize,
            0x06 => 1 + [3usize, 5][rng.below(2) as usize],
            0x07 => 2 + rng.below(3) as usize,
            0x08 => 4,
            0x09 => 0,
            0x0A => 3 + rng.below(12) as usize,
            _ => rng.below(8) as usize,
        };
        let mut data = rng.bytes(len);
        for b in data.iter_mut() {
            if rng.chance(1, 2) {
                *b = if rng.chance(1, 2) { *rng.pick(&related) } else { rng.range(1, 0x7F) as u8 };
            }
        }
        let from = if rng.chance(4, 5) { peer & 0x7F } else { rng.byte() & 0x7F };
        let resp = ctrl_response(own & 0x7F, from, iid, cmd, 0, &data);
        if rng.chance(1, 2) {
            let _ = trap(|| ctx.decode_packet(&resp).is_ok());
        } else {
            let _ = trap(|| ctx.process_packet(&resp, &mut rb).is_ok());
        }
    }
    for _ in 0..n {
        let src = rng.byte() & 0x7F;
        let iid = rng.byte() & 0x1F;
        let mut p = match rng.below(10) {
            0 | 1 => ctrl_request(own & 0x7F, src, iid, rng.chance(1, 3), 0x01, &[rng.below(2) as u8, rng.range(1, 0xFE) as u8]),
            2 => ctrl_request(own & 0x7F, src, iid, rng.chance(1, 3), 0x02, &[]),
            3 => ctrl_request(own & 0x7F, src, iid, rng.chance(1, 3), 0x03, &[]),
            4 => ctrl_request(own & 0x7F, src, iid, rng.chance(1, 3), 0x06, &[rng.byte() & 1]),
            5 => ctrl_request(own & 0x7F, src, iid, false, rng.range(7, 0x20) as u8, &[rng.byte()]),
            // responses as the peer we are about to talk to might have sent them: Set Endpoint ID
            // with every status / pool size, Allocate, Get Endpoint ID
            6 => {
                let from = if rng.chance(2, 3) { dest & 0x7F } else { src };
                match rng.below(3) {
                    0 => ctrl_response(own & 0x7F, from, iid, 0x01, 0, &[((rng.byte() & 1) << 4) | (rng.byte() & 3), rng.byte(), *rng.pick(&[0u8, 1, 4, 8, 16, 0xFF])]),
                    1 => ctrl_response(own & 0x7F, from, iid, 0x08, 0, &[rng.byte() & 1, rng.byte(), rng.byte(), rng.byte()]),
                    _ => ctrl_response(own & 0x7F, from, iid, 0x02, 0, &[rng.byte(), rng.byte() & 0x33, rng.byte()]),
                }
            }
            7 => crate::corpus::forged_vendor(&mut rng),
            _ => crate::corpus::gen_any(&mut rng),
        };
        if p.len() > 12 && rng.chance(1, 2) {
            // hostile but legal header bits: the decoder does not look at them
            p[7] = rng.byte();
            if rng.chance(1, 2) {
                p[9] |= 0x20;
            }
            fix_pec(&mut p);
        }
        match rng.below(6) {
            0 => {
                let _ = trap(|| ctx.decode_packet(&p).is_ok());
            }
            1 => {
                let _ = trap(|| ctx.get_length(&p).is_ok());
                let _ = trap(|| ctx.process_packet(&p, &mut rb).is_ok());
            }
            _ => {
                let _ = trap(|| ctx.process_packet(&p, &mut rb).is_ok());
            }
        }
    }
    if rng.chance(1, 3) {
        let u = rng.bytes(16);
        let _ = trap(std::panic::AssertUnwindSafe(|| ctx.set_uuid(&u)));
    }
}

thread_local! {
    /// EID the encoding half reported through its accessor right after the last `invoke_on(.., set_eids = true)`
    static EFFECTIVE_EID_THIS: std::cell::Cell<Option<u8>> = const { std::cell::Cell::new(None) };
}

/// `expected(c)`, except that for a stored EID of 0x00 or 0xFF the expectation uses what the
/// encoding half's accessor reported after the store. C13 quantifies accessor stores over EIDs
/// 0x01-0xFE; whether the null / broadcast EID is adopted is free (benign/C13-k ignores 0xFF), and
/// C07 speaks of "every EID value previously STORED in the context".
pub fn expected_as_stored(c: &Call) -> Exp {
    if c.eid_this == 0x00 || c.eid_this == 0xFF {
        if let Some(rb) = EFFECTIVE_EID_THIS.with(|e| e.get()) {
            let mut c2 = c.clone();
            c2.eid_this = rb;
            return expected(&c2);
        }
    }
    expected(c)
}

/// Same, on an existing context (`set_eids`: store eid_this/eid_other first).
pub fn invoke_on(ctx: &MCTPSMBusContext, c: &Call, buf: &mut [u8], set_eids: bool) -> Result<Result<usize, ()>, PanicSig> {
    let req = ctx.get_request();
    let resp = ctx.get_response();
    if set_eids {
        if c.form.on_response_half() {
            // the half that encodes is stored LAST: whether a store on one half is visible through
            // the other is not fixed by any property (C13 speaks of "the EID ... stored directly
            // through an accessor"), so the encoder's own half must hold eid_this either way
            req.set_eid(c.eid_other);
            resp.set_eid(c.eid_this);
        } else {
            resp.set_eid(c.eid_other);
            req.set_eid(c.eid_this);
        }
        let rb = if c.form.on_response_half() { resp.get_eid() } else { req.get_eid() };
        EFFECTIVE_EID_THIS.with(|e| e.set(Some(rb)));
    }
    let d = c.dest;
    let p = c.p;
    // `.map_err(|_| ())`: the harness only distinguishes "refused" from "encoded"; a library that
    // gives its refusals a richer error type (benign/C16-o: `Result<usize, EncodeError>`) still builds
    trap(|| (match c.form {
        Form::SetEid => {
            let op = match p[0] {
                0 => MCTPSetEndpointIDOperations::SetEID,
                1 => MCTPSetEndpointIDOperations::ForceEID,
                2 => MCTPSetEndpointIDOperations::ResetEID,
                _ => MCTPSetEndpointIDOperations::SetDiscoveredFlag,
            };
            req.set_endpoint_id(d, op, p[1], buf)
        }
        Form::GetEid => req.get_endpoint_id(d, buf),
        Form::GetUuid => req.get_endpoint_uuid(d, buf),
        Form::GetVer => {
            let q = match p[0] {
                0 => MCTPVersionQuery::MCTPBaseSpec,
                1 => MCTPVersionQuery::MCTPControlProcMessage,
                2 => MCTPVersionQuery::DSP0241,
                3 => MCTPVersionQuery::DSP0261,
                _ => MCTPVersionQuery::DSP0261_2,
            };
            req.get_mctp_version_support(d, q, buf)
        }
        Form::GetTypes => req.get_message_type_suport(d, buf),
        Form::GetVendor => req.get_vendor_defined_message_support(d, p[0], buf),
        Form::ResolveEid => req.resolve_endpoint_id(d, p[0], buf),
        Form::AllocEids => {
            let op = match p[0] {
                0 => AllocateEndpointIDOperation::AllocateEIDs,
                1 => AllocateEndpointIDOperation::ForceAllocation,
                _ => AllocateEndpointIDOperation::GetAllocationInformation,
            };
            req.allocate_endpoint_ids(d, op, p[1], p[2], buf)
        }
        Form::RoutingUpdate => {
            let entries: Vec<SMBusRoutingInformationUpdateEntry<[u8; 4]>> = c
                .blob
                .chunks(4)
                .filter(|e| e.len() == 4)
                .map(|e| {
                    if p[0] == 1 {
                        SMBusRoutingInformationUpdateEntry::new(route_type_variant(e[0]), e[1], e[2], e[3])
                    } else {
                        SMBusRoutingInformationUpdateEntry::new_from_buf([e[0], e[1], e[2], e[3]])
                    }
                })
                .collect();
            req.routing_information_update(d, &entries, buf)
        }
        Form::GetRouting => req.get_routing_table_entries(d, p[0], buf),
        Form::PrepDisc => req.prepare_for_endpoint_discovery(d, buf),
        Form::EpDisc => req.endpoint_discovery(d, buf),
        Form::DiscNotify => req.discovery_notify(d, buf),
        Form::GetNetId => req.get_network_id(d, buf),
        Form::QueryHop => req.query_hop(d, p[0], msg_type_variant(p[1]), buf),
        Form::ResolveUuid => {
            let mut u = [0u8; 16];
            u.copy_from_slice(&c.blob[..16]);
            req.resolve_uuid(d, &u, p[0], buf)
        }
        Form::QueryRate => req.query_rate_limit(d, buf),
        Form::VendorDefined => {
            let f = VendorIDFormat { format: p[0], data: c.data32, numeric_value: c.num16 };
            req.vendor_defined(d, &f, &c.blob, buf)
        }
        Form::RSetEid => {
            let a = if p[1] == 0 { MCTPSetEndpointIDAssignmentStatus::Accpeted } else { MCTPSetEndpointIDAssignmentStatus::Rejected };
            let al = match p[2] {
                0 => MCTPSetEndpointIDAllocationStatus::NoIDPool,
                1 => MCTPSetEndpointIDAllocationStatus::RequiresAllocation,
                _ => MCTPSetEndpointIDAllocationStatus::AlreadyAllocated,
            };
            resp.set_endpoint_id(cc_variant(p[0]), d, a, al, buf)
        }
        Form::RGetEid => {
            let t = if p[1] == 0 { MCTPGetEndpointIDEndpointType::Simple } else { MCTPGetEndpointIDEndpointType::Bus };
            let it = match p[2] {
                0 => MCTPGetEndpointIDEndpointIDType::DynamicEID,
                1 => MCTPGetEndpointIDEndpointIDType::StaticEID,
                2 => MCTPGetEndpointIDEndpointIDType::StaticPresentMatchEID,
                _ => MCTPGetEndpointIDEndpointIDType::StaticPresentNoMatchEID,
            };
            resp.get_endpoint_id(cc_variant(p[0]), d, t, it, p[3] != 0, buf)
        }
        Form::RGetUuid => {
            let mut u = [0u8; 16];
            u.copy_from_slice(&c.blob[..16]);
            resp.get_endpoint_uuid(cc_variant(p[0]), d, &u, buf)
        }
        Form::RGetVer => resp.get_mctp_version_support(cc_variant(p[0]), d, buf),
        Form::RGetTypes => resp.get_message_type_suport(cc_variant(p[0]), d, &c.blob, buf),
        Form::RGetVendor => resp.get_vendor_defined_message_support(cc_variant(p[0]), d, p[1], &c.blob, buf),
        Form::GenControlReq => req.generate_control_packet_bytes(d, &c.hdr.as_deref(), &c.blob, buf),
        Form::GenControlResp => resp.generate_control_packet_bytes(d, &c.hdr.as_deref(), &c.blob, buf),
        Form::GenPciReq => req.generate_pci_msg_packet_bytes(d, &c.hdr.as_deref(), &c.blob, buf),
        Form::GenPciResp => resp.generate_pci_msg_packet_bytes(d, &c.hdr.as_deref(), &c.blob, buf),
        Form::GenIanaReq => req.generate_iana_msg_packet_bytes(d, &c.hdr.as_deref(), &c.blob, buf),
        Form::GenIanaResp => resp.generate_iana_msg_packet_bytes(d, &c.hdr.as_deref(), &c.blob, buf),
        Form::GenSpdmReq => {
            let t = if p[0] == 0 { MessageType::SpdmOverMctp } else { MessageType::SecuredMessages };
            req.generate_spdm_msg_packet_bytes(d, t, &c.hdr.as_deref(), &c.blob, buf)
        }
        Form::GenSpdmResp => {
            let t = if p[0] == 0 { MessageType::SpdmOverMctp } else { MessageType::SecuredMessages };
            resp.generate_spdm_msg_packet_bytes(d, t, &c.hdr.as_deref(), &c.blob, buf)
        }
    })
    .map_err(|_| ()))
}

/// What kind of message the API used promises (for C01's expected decode result).
#[derive(Clone, Copy, Debug, PartialEq, Eq)]
pub enum Kind {
    CtrlRequest,
    CtrlResponse,
    /// trait-level control generator with caller-supplied bytes
    CtrlRaw,
    Vendor,
}

#[derive(Clone, Debug, PartialEq, Eq)]
pub enum Outcome {
    /// the encoder must succeed
    Ok,
    /// documented-invalid argument: must be refused with Err, buffer untouched
    DocumentedInvalid(&'static str),
    /// the frame would need a byte count above 255: must be refused (C04), must not panic (C16)
    TooBig,
}

/// The reference's view of a call.
#[derive(Clone, Debug)]
pub struct Exp {
    pub outcome: Outcome,
    pub kind: Kind,
    /// byte 8
    pub ty: u8,
    /// true: byte 7 must be 0xC8; false: only SOM/EOM/seq are constrained
    pub flags_exact: bool,
    /// expected bytes 9..n-1
    pub body: Vec<u8>,
    /// how many leading body bytes the layout properties constrain (all, except for responses
    /// with a non-Success completion code where only the 3 header bytes are)
    pub judged: usize,
    /// Some(why): the arguments are outside the documented shape of the call (a PCI vendor ID
    /// wider than 16 bits, a raw PCI/IANA generator given a header that is not the 2-/4-byte
    /// vendor ID). If the encoder encodes them the bytes must be `body`; a refusal with `Err(())`
    /// is not judged (the quantifiers of C08/C16 stop at the documented shapes).
    pub may_refuse: Option<&'static str>,
}

impl Exp {
    pub fn total_len(&self) -> usize {
        10 + self.body.len()
    }
    /// Whole expected packet for 7-bit own/dest, flags as the library emits them (0xC8).
    pub fn packet(&self, c: &Call) -> Vec<u8> {
        crate::refmodel::forge::frame(c.dest, c.own, c.dest, c.own, FLAGS_REQ, self.ty, &self.body)
    }
}

pub fn expected(c: &Call) -> Exp {
    let p = c.p;
    let mut outcome = Outcome::Ok;
    let mut kind = Kind::CtrlRequest;
    let mut ty = TY_CONTROL;
    let mut flags_exact = true;
    let mut body: Vec<u8> = Vec::new();
    let mut judged_override: Option<usize> = None;
    let mut may_refuse: Option<&'static str> = None;
    if c.form.is_request() {
        body.push(0x80);
        body.push(c.form.command_code().unwrap());
    }
    if c.form.is_response() {
        kind = Kind::CtrlResponse;
        flags_exact = false;
        body.push(0x00);
        body.push(c.form.command_code().unwrap());
        body.push(COMPLETION_CODES[p[0] as usize]);
        if p[0] != 0 {
            judged_override = Some(3);
        }
    }
    match c.form {
        Form::SetEid => {
            if p[1] == 0x00 || p[1] == 0xFF {
                outcome = Outcome::DocumentedInvalid("reserved EID");
            }
            body.extend_from_slice(&[SETEID_OPS[p[0] as usize], p[1]]);
        }
        Form::GetEid | Form::GetUuid | Form::GetTypes | Form::PrepDisc | Form::EpDisc | Form::DiscNotify | Form::GetNetId | Form::QueryRate => {}
        Form::GetVer => body.push(VERSION_QUERIES[p[0] as usize]),
        Form::GetVendor | Form::ResolveEid | Form::GetRouting => body.push(p[0]),
        Form::AllocEids => body.extend_from_slice(&[ALLOC_OPS[p[0] as usize], p[1], p[2]]),
        Form::RoutingUpdate => {
            let n = c.blob.len() / 4;
            if n >= 8 {
                outcome = Outcome::DocumentedInvalid("8 or more routing entries");
            }
            body.push(n as u8);
            for e in c.blob.chunks(4) {
                if p[0] == 1 {
                    // the entry is built with the field-wise constructor; what that constructor
                    // stores is no property's business (C18 covers getters, setters and the
                    // from-bytes builders), what C06 fixes is that the encoder copies the ENTRY's
                    // four bytes - so the entry object's own bytes are the expectation
                    let ent = SMBusRoutingInformationUpdateEntry::new(route_type_variant(e[0]), e[1], e[2], e[3]);
                    let _ = ROUTE_TYPES;
                    body.extend_from_slice(&ent.0);
                } else if e.len() == 4 {
                    // same for the from-bytes builder (it may normalise reserved bits)
                    let ent = SMBusRoutingInformationUpdateEntry::new_from_buf([e[0], e[1], e[2], e[3]]);
                    body.extend_from_slice(&ent.0);
                } else {
                    body.extend_from_slice(e);
                }
            }
        }
        Form::QueryHop => body.extend_from_slice(&[p[0], MSG_TYPE_VALUES[p[1] as usize]]),
        Form::ResolveUuid => {
            body.extend_from_slice(&c.blob[..16]);
            body.push(p[0]);
        }
        Form::VendorDefined => {
            kind = Kind::Vendor;
            match p[0] {
                0 => {
                    ty = TY_PCI;
                    if c.data32 > 0xFFFF {
                        may_refuse = Some("PCI vendor ID wider than 16 bits");
                    }
                    body.extend_from_slice(&[(c.data32 >> 8) as u8, c.data32 as u8]);
                }
                1 => {
                    ty = TY_IANA;
                    body.extend_from_slice(&[(c.data32 >> 24) as u8, (c.data32 >> 16) as u8, (c.data32 >> 8) as u8, c.data32 as u8]);
                }
                _ => outcome = Outcome::DocumentedInvalid("vendor ID format not PCI/IANA"),
            }
            body.extend_from_slice(&c.blob);
        }
        Form::RSetEid => {
            body.extend_from_slice(&[(ASSIGN_STATUS[p[1] as usize] << 4) | ALLOC_STATUS[p[2] as usize], c.eid_this, 0x00]);
        }
        Form::RGetEid => {
            body.extend_from_slice(&[c.eid_this, (ENDPOINT_TYPES[p[1] as usize] << 4) | EID_TYPES[p[2] as usize], (p[3] != 0) as u8]);
        }
        Form::RGetUuid => body.extend_from_slice(&c.blob[..16]),
        Form::RGetVer => body.extend_from_slice(&VERSION_RESPONSE),
        Form::RGetTypes => {
            if c.blob.len() > 30 {
                outcome = Outcome::DocumentedInvalid("more than 30 message types");
            }
            body.push(c.blob.len() as u8);
            body.extend_from_slice(&c.blob);
        }
        Form::RGetVendor => {
            body.push(p[1]);
            body.extend_from_slice(&c.blob);
        }
        Form::GenControlReq | Form::GenControlResp => {
            kind = Kind::CtrlRaw;
            flags_exact = false;
            // the raw control generator has no documented argument shape; what a control message
            // IS is documented by DSP0236: a 2-byte header with the reserved bit clear (and not a
            // datagram response), and a completion code after a response header. Anything else may
            // be refused (C16 quantifies over "documented shapes"); if encoded, bytes are judged.
            let canonical = match &c.hdr {
                Some(h) if h.len() == 2 => h[0] & 0x20 == 0 && !(h[0] & 0x80 == 0 && h[0] & 0x40 != 0) && (h[0] & 0x80 != 0 || !c.blob.is_empty()),
                _ => false,
            };
            if !canonical {
                may_refuse = Some("raw control generator given something that is not a control message");
            }
            if let Some(h) = &c.hdr {
                body.extend_from_slice(h);
            }
            body.extend_from_slice(&c.blob);
        }
        Form::GenPciReq | Form::GenPciResp | Form::GenIanaReq | Form::GenIanaResp | Form::GenSpdmReq | Form::GenSpdmResp => {
            kind = Kind::Vendor;
            ty = match c.form {
                Form::GenPciReq | Form::GenPciResp => TY_PCI,
                Form::GenIanaReq | Form::GenIanaResp => TY_IANA,
                _ => {
                    if p[0] == 0 {
                        TY_SPDM
                    } else {
                        TY_SECURED
                    }
                }
            };
            let hl = c.hdr.as_ref().map(|h| h.len());
            match c.form {
                Form::GenPciReq | Form::GenPciResp if hl != Some(2) => may_refuse = Some("raw PCI generator without a 2-byte vendor ID header"),
                Form::GenIanaReq | Form::GenIanaResp if hl != Some(4) => may_refuse = Some("raw IANA generator without a 4-byte enterprise number header"),
                _ => {}
            }
            if let Some(h) = &c.hdr {
                body.extend_from_slice(h);
            }
            body.extend_from_slice(&c.blob);
        }
    }
    if outcome == Outcome::Ok && body.len() > MAX_BODY {
        outcome = Outcome::TooBig;
    }
    let judged = judged_override.unwrap_or(body.len());
    Exp { outcome, kind, ty, flags_exact, body, judged, may_refuse }
}

/// Encode a call into a fresh, poisoned buffer of `cap` bytes. Returns (result, buffer, poison).
pub fn encode_poisoned(c: &Call, cap: usize, poison_seed: u64) -> (Result<Result<usize, ()>, PanicSig>, Vec<u8>, Vec<u8>) {
    let mut r = Rng::new(poison_seed);
    let poison = r.bytes(cap);
    let (res, buf) = invoke_aligned(c, &poison, (crate::rng::hash_bytes(poison_seed, &c.blob) as usize ^ c.dest as usize ^ c.own as usize) & 7);
    (res, buf, poison)
}

/// Invoke the encoder on a buffer whose first byte sits at address residue `want` modulo 8 and which
/// initially holds `init`; returns the result and the buffer contents afterwards. The bytes just
/// before and after the window are guard bytes that must not change (checked here: a write outside
/// the caller's slice would be a bug of the harness or UB in the library).
pub fn invoke_aligned(c: &Call, init: &[u8], want: usize) -> (Result<Result<usize, ()>, PanicSig>, Vec<u8>) {
    let cap = init.len();
    let mut store = vec![0xC3u8; cap + 24];
    let base = store.as_ptr() as usize & 7;
    let off = 8 + ((want + 8 - base) & 7);
    store[off..off + cap].copy_from_slice(init);
    let res = invoke(c, &mut store[off..off + cap]);
    (res, store[off..off + cap].to_vec())
}

/// Convenience: encode with a generous buffer; Some(bytes) when the encoder returned Ok(n) with n <= cap.
pub fn encode_ok(c: &Call) -> Option<Vec<u8>> {
    let mut buf = vec![0xA5u8; 700];
    match invoke(c, &mut buf) {
        Ok(Ok(n)) if n <= buf.len() => {
            buf.truncate(n);
            Some(buf)
        }
        _ => None,
    }
}
