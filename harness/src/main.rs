//! mctpmon — runtime monitors for libmctp (see /verif/DESIGN.md).
//!
//!   mctpmon run    --prop C01 --tier quick|thorough [--seed N] [--verif-dir /verif]
//!   mctpmon sub    --prop C01 --tier quick --seed N --part <name> [--shard k/N] [--scale f]
//!   mctpmon replay --prop C01 --case '<case string>'
//!
//! Exit codes: 0 held on everything observed, 1 violation, 2 inconclusive.

mod catalog;
mod classify;
mod corpus;
mod encwl;
mod json;
mod libapi;
mod mon;
mod refmodel;
mod report;
mod rng;
mod runner;
mod trap;

use rng::Rng;

#[derive(Clone, Copy, Debug, PartialEq, Eq)]
pub enum Tier {
    Quick,
    Thorough,
}

impl Tier {
    pub fn name(self) -> &'static str {
        match self {
            Tier::Quick => "quick",
            Tier::Thorough => "thorough",
        }
    }
}

/// Per-shard run configuration handed to a monitor.
#[derive(Clone, Debug)]
pub struct RunCfg {
    pub tier: Tier,
    pub seed: u64,
    /// "chk" | "rel" | "miri" | "cov"
    pub build: &'static str,
    pub shard: usize,
    pub nshards: usize,
    /// multiplies random workload sizes (Miri and coverage runs use a small scale)
    pub scale: f64,
    /// optional sub-workload name (child processes)
    pub part: String,
}

impl RunCfg {
    /// RNG for a labelled sub-workload of this shard.
    pub fn rng(&self, label: &str) -> Rng {
        let l = rng::hash_bytes(0x5EED, label.as_bytes());
        Rng::new(rng::mix(rng::mix(self.seed, l), self.shard as u64 + 1))
    }
    /// Scaled count: `quick` base, thorough multiplies by `thorough_mul` via pick().
    pub fn n(&self, base: u64) -> u64 {
        let v = (base as f64 * self.scale).round() as u64;
        v.max(1)
    }
    pub fn pick(&self, quick: u64, thorough: u64) -> u64 {
        match self.tier {
            Tier::Quick => quick,
            Tier::Thorough => thorough,
        }
    }
    pub fn thorough(&self) -> bool {
        self.tier == Tier::Thorough
    }
    pub fn is_small(&self) -> bool {
        self.scale < 0.01
    }
}

/// Which build this binary is (set by the profile through cfg(debug_assertions) / overflow checks).
pub fn build_tag() -> &'static str {
    if cfg!(miri) {
        "miri"
    } else if option_env!("MCTPMON_COV").is_some() {
        "cov"
    } else if cfg!(debug_assertions) {
        "chk"
    } else {
        "rel"
    }
}

/// Does this build really trap arithmetic overflow? (measured, not assumed)
pub fn overflow_checks_active() -> bool {
    let x: u8 = std::hint::black_box(255);
    trap::trap(|| {
        let y = std::hint::black_box(x) + std::hint::black_box(1u8);
        std::hint::black_box(y)
    })
    .is_err()
}

fn main() {
    trap::install();
    let args: Vec<String> = std::env::args().collect();
    let code = runner::main(&args);
    std::process::exit(code);
}
