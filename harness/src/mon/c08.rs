//! C08 — vendor-defined and SPDM messages are framed with the right vendor header.

use super::enc_common::*;
use super::*;
use crate::catalog::*;
use crate::encwl::*;
use crate::rng::hash_bytes;

const FORMS: [Form; 7] =
    [Form::VendorDefined, Form::GenPciReq, Form::GenPciResp, Form::GenIanaReq, Form::GenIanaResp, Form::GenSpdmReq, Form::GenSpdmResp];

pub fn mon() -> Mon {
    Mon {
        id: "C08",
        title: "Vendor-defined and SPDM messages are framed with the right vendor header",
        run,
        finish,
        replay,
        rule: "vendor_defined with all 65 536 PCI IDs (random high halves in `data`), IANA numbers (2^20-2^22 random plus every single-byte-lane pattern in quick; a 2^32 sharded sweep in thorough), every format byte 0..255, bodies of every length 0..249 with random content; the six trait-level vendor/SPDM generators with header None / Some(0-8 bytes). Bytes 8.. of each output are compared with literal big-endian layouts [0x7E, id>>8, id, msg], [0x7F, id>>24, id>>16, id>>8, id, msg], [0x05|0x06, hdr, body]; format >= 2 must return Err. Non-trivial = an output was judged or a bad format was refused; distinct = distinct (form, bytes 8..).",
        assumptions: &["message bodies limited to what one SMBus frame can carry (249 bytes after the type byte); larger ones are C04/C16's"],
        children: rel_child,
    }
}

fn plan(cfg: &RunCfg) -> EncPlan {
    let mut p = EncPlan::new(&FORMS);
    // the body does not depend on where the packet goes: the destination is swept as the byte parameter it is
    p.addr7 = false;
    p.len_max = 249;
    p.len_reps = cfg.pick(2, 100) as u32;
    p.random_per_form = cfg.pick(40_000, 1_000_000);
    p.param_sweep_reps = cfg.pick(4, 100) as u32;
    p
}

pub fn check(c: &Call, rep: &mut Report) {
    let exp = expected(c);
    if exp.outcome == Outcome::TooBig {
        return;
    }
    let obs = observe(c, 0xC08);
    rep.eval();
    let form = c.form.name();
    if let Outcome::DocumentedInvalid(_) = exp.outcome {
        rep.nontrivial(hash_bytes(0x8FF, &[c.p[0]]));
        match &obs.res {
            Ok(Err(())) => rep.class("bad-format:refused"),
            _ => {
                rep.class("bad-format:not-refused");
                rep.violation(
                    &format!("{}:bad-format-not-refused", form),
                    || format!("vendor ID format {} is neither PCI (0) nor IANA (1) but the call returned {}", c.p[0], obs.brief()),
                    || c.encode(),
                );
            }
        }
        return;
    }
    let pkt = match note_outcome(rep, c, &obs) {
        Some(p) => p,
        None => {
            // arguments that are valid and fit the frame must be encoded with the stated layout;
            // a refusal or a panic is not that encoding
            // the statement is about the body; a destination byte above 0x7F is swept because it is a
            // byte parameter, but an encoder that refuses it (not a 7-bit address) encodes nothing wrong
            let may_refuse = if c.dest > 0x7F { exp.may_refuse.or(Some("destination byte above 0x7F")) } else { exp.may_refuse };
            if let (Some(why), Ok(Err(()))) = (may_refuse, &obs.res) {
                rep.class(&format!("unjudged:refused:{}", why));
            } else if exp.outcome == Outcome::Ok {
                let oc = match &obs.res {
                    Ok(Err(())) => "refused".to_string(),
                    Err(p) => format!("panic:{}", p.kind),
                    _ => "no-packet".to_string(),
                };
                rep.violation(&format!("{}:valid-message-not-encoded:{}", form, oc), || format!("valid arguments ({} byte packet expected) were not encoded: {}", exp.total_len(), obs.brief()), || c.encode());
            }
            return;
        }
    };
    let n = pkt.len();
    let tail = &pkt[8..n - 1];
    rep.nontrivial(hash_bytes(c.form as u64 + 0x800, tail));
    rep.class(&format!("type:{:#04x}", pkt[8]));
    let mut want = vec![exp.ty];
    want.extend_from_slice(&exp.body);
    if tail != &want[..] {
        let what = if tail[0] != want[0] {
            "type-byte"
        } else if tail.len() != want.len() {
            "length"
        } else {
            "vendor-header-or-body"
        };
        rep.violation(
            &format!("{}:{}", form, what),
            || format!("bytes 8.. {} != expected {}; {}", crate::json::hex(tail), crate::json::hex(&want), obs.brief()),
            || c.encode(),
        );
    }
    if rep.want_sample() {
        rep.sample(|| sample_json(c, &obs));
    }
}

fn run(cfg: &RunCfg) -> Report {
    let mut rep = Report::new();
    let p = plan(cfg);
    for_each_call(cfg, "c08", &p, &mut |c, _| check(c, &mut rep));
    if cfg.is_small() || cfg.part == "rel" {
        // the rel child (overflow checks off) repeats the catalogue part only
        return rep;
    }
    let ns = cfg.nshards as u64;
    let sh = cfg.shard as u64;
    let mut rng = cfg.rng("c08-ids");
    // all 65 536 PCI ids, random upper half of `data`
    let mut pci_done = 0u64;
    for id in 0..=0xFFFFu32 {
        if id as u64 % ns == sh {
            let mut c = Call::random(Form::VendorDefined, &mut rng, true, 6);
            c.p[0] = 0;
            c.data32 = ((rng.next() as u32) << 16) | id;
            check(&c, &mut rep);
            pci_done += 1;
        }
    }
    // every PCI id again with bodies of 1..=3 bytes of regular content (an id that happens to look
    // like another header, followed by a body that completes the look-alike)
    for id in 0..=0xFFFFu32 {
        if id as u64 % ns == sh {
            for len in 1..=3usize {
                for fill in [0x00u8, 0xFF] {
                    let mut c = Call::new(Form::VendorDefined, rng.byte() & 0x7F, rng.byte() & 0x7F);
                    c.p[0] = 0;
                    c.data32 = id;
                    c.blob = vec![fill; len];
                    if len > 1 {
                        c.blob[0] = rng.byte();
                    }
                    check(&c, &mut rep);
                }
            }
        }
    }
    rep.class_n("pci-id-sweep", pci_done);
    // IANA numbers
    let iana = |v: u32, rep: &mut Report, rng: &mut crate::rng::Rng| {
        let mut c = Call::random(Form::VendorDefined, rng, true, 3);
        c.p[0] = 1;
        c.data32 = v;
        check(&c, rep);
    };
    // every value of each byte lane with the other lanes random and zero; walking bits
    let mut counter = 0u64;
    for lane in 0..4u32 {
        for b in 0..=255u32 {
            for fill in [0u32, 0xFFFF_FFFF, 0x1234_5678] {
                if counter % ns == sh {
                    let mask = 0xFFu32 << (8 * lane);
                    iana((fill & !mask) | (b << (8 * lane)), &mut rep, &mut rng);
                }
                counter += 1;
            }
        }
    }
    if cfg.thorough() {
        // full 2^32 sweep, sharded; a light-weight call (empty message) per value
        let per = (1u64 << 32) / ns;
        let lo = per * sh;
        let hi = if sh == ns - 1 { 1u64 << 32 } else { lo + per };
        let mut c = Call::new(Form::VendorDefined, 0x12, 0x34);
        c.p[0] = 1;
        let mut buf = [0u8; 32];
        let mut n_done = 0u64;
        for v in lo..hi {
            c.data32 = v as u32;
            // direct, allocation-free path for the sweep
            let r = invoke(&c, &mut buf);
            let ok = matches!(r, Ok(Ok(15)))
                && buf[8] == 0x7F
                && buf[9] == (v >> 24) as u8
                && buf[10] == (v >> 16) as u8
                && buf[11] == (v >> 8) as u8
                && buf[12] == v as u8;
            n_done += 1;
            if !ok {
                check(&c, &mut rep); // full oracle, records the violation with detail
            }
        }
        rep.evals(n_done);
        rep.class_n("iana-id-sweep", n_done);
    } else {
        let n = cfg.n(400_000);
        for _ in 0..n {
            let v = rng.next() as u32;
            iana(v, &mut rep, &mut rng);
        }
    }
    rep
}

fn finish(rep: &mut Report, cfg: &RunCfg) {
    floor(rep, cfg, 50_000);
    if cfg.is_small() {
        return;
    }
    if rep.classes.get("pci-id-sweep").copied().unwrap_or(0) == 65_536 {
        rep.exhaustive_spaces.push("all 65536 PCI vendor IDs".into());
    } else {
        rep.inconclusive.push("PCI ID sweep incomplete".into());
    }
    if cfg.thorough() {
        if rep.classes.get("iana-id-sweep").copied().unwrap_or(0) == 1u64 << 32 {
            rep.exhaustive_spaces.push("all 2^32 IANA enterprise numbers (with an empty message)".into());
        } else {
            rep.inconclusive.push("IANA 2^32 sweep incomplete".into());
        }
    }
    if !rep.classes.contains_key("bad-format:refused") && !rep.classes.contains_key("bad-format:not-refused") {
        rep.inconclusive.push("no invalid vendor ID format was tried".into());
    }
}

fn replay(case: &str, rep: &mut Report) -> Result<(), String> {
    let c = Call::decode(case).ok_or("cannot parse case")?;
    check(&c, rep);
    Ok(())
}
