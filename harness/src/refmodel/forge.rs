//! Reference packet builder. It is the oracle for "what should the encoder have produced" and
//! the generator for "what could arrive from another implementation" (instance IDs, D bit, foreign
//! command codes, wrong versions — packets the library's own encoders can never emit).

use super::crc::crc8;
use super::wire::*;

/// Build a complete SMBus MCTP packet with a correct byte count and PEC.
/// `flags` is byte 7, `ty_byte` is byte 8 (IC bit | type), `body` are the bytes after it.
pub fn frame(dst7: u8, src7: u8, dst_eid: u8, src_eid: u8, flags: u8, ty_byte: u8, body: &[u8]) -> Vec<u8> {
    let mut v = Vec::with_capacity(10 + body.len());
    v.push((dst7 & 0x7F) << 1);
    v.push(SMBUS_CMD);
    v.push((6 + body.len()) as u8); // truncates above 249 body bytes; callers check MAX_BODY
    v.push(((src7 & 0x7F) << 1) | 1);
    v.push(HDR_BYTE);
    v.push(dst_eid);
    v.push(src_eid);
    v.push(flags);
    v.push(ty_byte);
    v.extend_from_slice(body);
    let p = crc8(&v);
    v.push(p);
    v
}

/// Control header byte 0 (wire byte 9): Rq bit 7, D bit 6, reserved bit 5, instance ID bits 4:0.
pub fn ctrl_b0(rq: bool, d: bool, rsvd: bool, iid: u8) -> u8 {
    ((rq as u8) << 7) | ((d as u8) << 6) | ((rsvd as u8) << 5) | (iid & 0x1F)
}

/// A control request as another endpoint would send it: source EID == source address.
pub fn ctrl_request(dst7: u8, src7: u8, iid: u8, d: bool, cmd: u8, data: &[u8]) -> Vec<u8> {
    let mut body = vec![ctrl_b0(true, d, false, iid), cmd];
    body.extend_from_slice(data);
    frame(dst7, src7, dst7, src7, FLAGS_REQ, TY_CONTROL, &body)
}

/// A control response as another endpoint would send it.
pub fn ctrl_response(dst7: u8, src7: u8, iid: u8, cmd: u8, cc: u8, data: &[u8]) -> Vec<u8> {
    let mut body = vec![ctrl_b0(false, false, false, iid), cmd, cc];
    body.extend_from_slice(data);
    frame(dst7, src7, dst7, src7, 0xC0, TY_CONTROL, &body)
}

/// Recompute the PEC (last byte) in place. No-op on empty input.
pub fn fix_pec(p: &mut [u8]) {
    let n = p.len();
    if n >= 1 {
        p[n - 1] = crc8(&p[..n - 1]);
    }
}

/// Recompute byte count (byte 2) from the actual length, then the PEC.
pub fn fix_count_and_pec(p: &mut [u8]) {
    let n = p.len();
    if n >= 4 {
        p[2] = (n - 4) as u8;
    }
    fix_pec(p);
}
