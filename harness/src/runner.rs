//! Orchestration: argument parsing, sharded execution, child builds (rel / miri / cov), known
//! findings, verdict, evidence and replay files.

use crate::json::J;
use crate::mon::{registry, Child, Mon};
use crate::report::{Finding, Report};
use crate::{build_tag, RunCfg, Tier};
use std::collections::BTreeMap;
use std::io::Write;
use std::time::Instant;

pub const DEFAULT_SHARDS: usize = 16;

struct Args {
    mode: String,
    prop: String,
    tier: Tier,
    seed: u64,
    verif: String,
    part: String,
    shard: Option<(usize, usize)>,
    scale: f64,
    case: String,
}

fn parse(args: &[String]) -> Result<Args, String> {
    if args.len() < 2 {
        return Err("usage: mctpmon run|sub|replay|list --prop Cxx ...".into());
    }
    let mut a = Args {
        mode: args[1].clone(),
        prop: String::new(),
        tier: Tier::Quick,
        seed: 1,
        verif: "/verif".into(),
        part: String::new(),
        shard: None,
        scale: 1.0,
        case: String::new(),
    };
    let mut i = 2;
    while i < args.len() {
        let k = args[i].as_str();
        let v = args.get(i + 1).cloned().ok_or_else(|| format!("missing value for {}", k))?;
        match k {
            "--prop" => a.prop = v,
            "--tier" => {
                a.tier = match v.as_str() {
                    "quick" => Tier::Quick,
                    "thorough" => Tier::Thorough,
                    _ => return Err(format!("bad tier {}", v)),
                }
            }
            "--seed" => a.seed = v.parse::<i64>().map(|x| x as u64).or_else(|_| v.parse::<u64>()).map_err(|_| format!("bad seed {}", v))?,
            "--verif-dir" => a.verif = v,
            "--part" => a.part = v,
            "--scale" => a.scale = v.parse().map_err(|_| format!("bad scale {}", v))?,
            "--case" => a.case = v,
            "--shard" => {
                let (k, n) = v.split_once('/').ok_or("bad --shard")?;
                a.shard = Some((k.parse().map_err(|_| "bad shard")?, n.parse().map_err(|_| "bad shard")?));
            }
            _ => return Err(format!("unknown argument {}", k)),
        }
        i += 2;
    }
    Ok(a)
}

fn find_mon(id: &str) -> Option<Mon> {
    registry().into_iter().find(|m| m.id == id)
}

/// Run all shards of a monitor (in threads unless a single shard was requested) and merge in order.
fn run_sharded(m: &Mon, tier: Tier, seed: u64, part: &str, scale: f64, only: Option<(usize, usize)>) -> Report {
    let build = build_tag();
    let mk = |shard: usize, nshards: usize| RunCfg { tier, seed, build, shard, nshards, scale, part: part.to_string() };
    let mut merged = Report::new();
    if let Some((k, n)) = only {
        let cfg = mk(k, n);
        merged.merge((m.run)(&cfg));
        return merged;
    }
    let nshards: usize = std::env::var("MCTPMON_SHARDS").ok().and_then(|s| s.parse().ok()).unwrap_or(DEFAULT_SHARDS);
    let run = m.run;
    let reports: Vec<Report> = std::thread::scope(|s| {
        let hs: Vec<_> = (0..nshards)
            .map(|k| {
                let cfg = mk(k, nshards);
                std::thread::Builder::new()
                    .stack_size(16 << 20)
                    .spawn_scoped(s, move || run(&cfg))
                    .expect("spawn shard")
            })
            .collect();
        hs.into_iter()
            .map(|h| match h.join() {
                Ok(r) => r,
                Err(_) => {
                    let mut r = Report::new();
                    r.inconclusive.push("a harness shard panicked outside the trap (harness bug)".into());
                    r
                }
            })
            .collect()
    });
    for r in reports {
        merged.merge(r);
    }
    merged
}

struct Known {
    /// (property, key) -> description
    findings: BTreeMap<(String, String), String>,
    fixed: Vec<String>,
}

fn load_known(path: &str) -> Result<Known, String> {
    let mut k = Known { findings: BTreeMap::new(), fixed: Vec::new() };
    let text = match std::fs::read_to_string(path) {
        Ok(t) => t,
        Err(_) => return Ok(k),
    };
    for line in text.lines() {
        let l = line.trim();
        if l.is_empty() || l.starts_with('#') {
            continue;
        }
        if let Some(rest) = l.strip_prefix("finding:") {
            // finding: property=C10 key=<key> :: text
            let (head, desc) = rest.split_once("::").unwrap_or((rest, ""));
            let mut prop = String::new();
            let mut key = String::new();
            for tok in head.split_whitespace() {
                if let Some(v) = tok.strip_prefix("property=") {
                    prop = v.to_string();
                } else if let Some(v) = tok.strip_prefix("key=") {
                    key = v.to_string();
                }
            }
            if prop.is_empty() || key.is_empty() {
                return Err(format!("malformed known-finding line: {}", l));
            }
            k.findings.insert((prop, key), desc.trim().to_string());
        } else if l.starts_with("fixed:") {
            k.fixed.push(l.to_string());
        } else {
            return Err(format!("unrecognised line in known-findings file: {}", l));
        }
    }
    Ok(k)
}

fn run_child(verif: &str, m: &Mon, child: &Child, tier: Tier, seed: u64, merged: &mut Report) {
    let bin = format!("{}/harness/target/{}/mctpmon", verif, child.build);
    let mut cmd = std::process::Command::new(&bin);
    cmd.args(["sub", "--prop", m.id, "--tier", tier.name(), "--seed", &seed.to_string(), "--part", child.part, "--scale", &child.scale.to_string()]);
    let out = match cmd.output() {
        Ok(o) => o,
        Err(e) => {
            merged.inconclusive.push(format!("child build '{}' could not be started ({}): {}", child.build, bin, e));
            return;
        }
    };
    let text = String::from_utf8_lossy(&out.stdout).to_string();
    absorb_sub_output(&text, child.build, merged);
}

/// Parse the line protocol printed by `sub` mode and merge it into `merged`.
pub fn absorb_sub_output(text: &str, build: &str, merged: &mut Report) {
    let mut done = false;
    let mut evals = 0u64;
    let mut distinct = 0u64;
    for line in text.lines() {
        if let Some(v) = line.strip_prefix("SUB-EVAL ") {
            evals += v.trim().parse::<u64>().unwrap_or(0);
        } else if let Some(v) = line.strip_prefix("SUB-DISTINCT ") {
            distinct += v.trim().parse::<u64>().unwrap_or(0);
        } else if let Some(v) = line.strip_prefix("SUB-CLASS ") {
            if let Some((name, n)) = v.rsplit_once('\t') {
                merged.class_n(&format!("{}:{}", build, name), n.parse().unwrap_or(0));
            }
        } else if let Some(v) = line.strip_prefix("SUB-FINDING ") {
            let parts: Vec<&str> = v.splitn(4, '\t').collect();
            if parts.len() == 4 {
                let key = parts[0].to_string();
                let count: u64 = parts[1].parse().unwrap_or(1);
                let case = parts[2].to_string();
                let desc = format!("[{} build] {}", build, parts[3]);
                if let Some(f) = merged.findings.get_mut(&key) {
                    f.count += count;
                } else {
                    merged.findings.insert(key.clone(), Finding { key, desc, case, count });
                }
            }
        } else if let Some(v) = line.strip_prefix("SUB-INCONCLUSIVE ") {
            merged.inconclusive.push(format!("[{}] {}", build, v));
        } else if let Some(v) = line.strip_prefix("SUB-NOTE ") {
            merged.note(format!("[{}] {}", build, v));
        } else if line.starts_with("SUB-DONE") {
            done = true;
        }
    }
    merged.evaluations += evals;
    merged.class_n(&format!("{}:evaluations", build), evals);
    merged.class_n(&format!("{}:distinct_nontrivial", build), distinct);
    if !done {
        merged.inconclusive.push(format!("child build '{}' did not complete (no SUB-DONE)", build));
    }
}

fn print_sub(rep: &Report) {
    let out = std::io::stdout();
    let mut o = out.lock();
    let _ = writeln!(o, "SUB-EVAL {}", rep.evaluations);
    let _ = writeln!(o, "SUB-DISTINCT {}", rep.distinct_count());
    for (k, v) in &rep.classes {
        let _ = writeln!(o, "SUB-CLASS {}\t{}", k, v);
    }
    for f in rep.findings.values() {
        let _ = writeln!(o, "SUB-FINDING {}\t{}\t{}\t{}", f.key, f.count, f.case.replace(['\t', '\n'], " "), f.desc.replace(['\t', '\n'], " "));
    }
    for s in &rep.inconclusive {
        let _ = writeln!(o, "SUB-INCONCLUSIVE {}", s.replace('\n', " "));
    }
    for s in &rep.notes {
        let _ = writeln!(o, "SUB-NOTE {}", s.replace('\n', " "));
    }
    let _ = writeln!(o, "SUB-DONE");
}

fn self_tests(rep: &mut Report) {
    if let Err(e) = crate::refmodel::crc::self_test() {
        rep.inconclusive.push(format!("oracle self-test failed (CRC): {}", e));
    }
    if let Err(e) = crate::refmodel::refdec::self_test() {
        rep.inconclusive.push(format!("oracle self-test failed (reference decoder): {}", e));
    }
}

pub fn main(args: &[String]) -> i32 {
    let a = match parse(args) {
        Ok(a) => a,
        Err(e) => {
            eprintln!("mctpmon: {}", e);
            return 2;
        }
    };
    if a.mode == "list" {
        for m in registry() {
            println!("{}\t{}", m.id, m.title);
        }
        return 0;
    }
    let m = match find_mon(&a.prop) {
        Some(m) => m,
        None => {
            eprintln!("mctpmon: no monitor for property '{}'", a.prop);
            return 2;
        }
    };
    match a.mode.as_str() {
        "sub" => {
            let mut rep = Report::new();
            self_tests(&mut rep);
            let r = run_sharded(&m, a.tier, a.seed, &a.part, a.scale, a.shard);
            rep.merge(r);
            print_sub(&rep);
            0
        }
        "replay" => replay(&m, &a),
        "run" => run(&m, &a),
        other => {
            eprintln!("mctpmon: unknown mode {}", other);
            2
        }
    }
}

fn replay(m: &Mon, a: &Args) -> i32 {
    let mut rep = Report::new();
    self_tests(&mut rep);
    if let Err(e) = (m.replay)(&a.case, &mut rep) {
        println!("INCONCLUSIVE property={} replay: {}", m.id, e);
        return 2;
    }
    let known = match load_known(&format!("{}/KNOWN_FINDINGS.txt", a.verif)) {
        Ok(k) => k,
        Err(e) => {
            println!("INCONCLUSIVE property={} {}", m.id, e);
            return 2;
        }
    };
    let mut viol = 0;
    for f in rep.findings.values() {
        if known.findings.contains_key(&(m.id.to_string(), f.key.clone())) {
            println!("KNOWN-FINDING: property={} key={} {}", m.id, f.key, f.desc);
        } else {
            println!("VIOLATION property={} replay=<this case> key={} :: {}", m.id, f.key, f.desc);
            viol += 1;
        }
    }
    if !rep.inconclusive.is_empty() {
        for s in &rep.inconclusive {
            println!("INCONCLUSIVE property={} {}", m.id, s);
        }
        return 2;
    }
    if viol > 0 {
        1
    } else {
        println!("replay: property={} holds on this case ({} oracle evaluations)", m.id, rep.evaluations);
        0
    }
}

fn run(m: &Mon, a: &Args) -> i32 {
    let t0 = Instant::now();
    // generous wall-clock watchdog; firing is inconclusive, never a violation
    let limit_s: u64 = std::env::var("MCTPMON_WATCHDOG_S").ok().and_then(|s| s.parse().ok()).unwrap_or(match a.tier {
        Tier::Quick => 600,
        Tier::Thorough => 3600,
    });
    let id = m.id;
    std::thread::spawn(move || {
        std::thread::sleep(std::time::Duration::from_secs(limit_s));
        println!("INCONCLUSIVE property={} wall-clock watchdog fired after {} s", id, limit_s);
        std::process::exit(2);
    });

    let mut rep = Report::new();
    self_tests(&mut rep);
    let ovf = crate::overflow_checks_active();
    if build_tag() == "chk" && !ovf {
        rep.inconclusive.push("the chk build does not trap arithmetic overflow (profile not applied?)".into());
    }
    let r = run_sharded(m, a.tier, a.seed, "", a.scale, a.shard);
    rep.merge(r);
    let mut builds = vec![J::s(format!("{} (overflow-checks {})", build_tag(), if ovf { "on" } else { "off" }))];
    let skip_children = std::env::var("MCTPMON_SKIP_CHILDREN").is_ok();
    if skip_children {
        rep.note("child builds skipped (MCTPMON_SKIP_CHILDREN set; self-test mode)");
    }
    for child in (m.children)(a.tier).into_iter().filter(|_| !skip_children) {
        match child.build {
            "rel" => {
                run_child(&a.verif, m, &child, a.tier, a.seed, &mut rep);
                builds.push(J::s(format!("rel part={}", child.part)));
            }
            other => {
                // miri / cov children are started by the ./check script, which passes their
                // output back through files (see absorb below)
                let _ = other;
            }
        }
    }
    // outputs of externally started children (miri, cov): <verif>/harness/target/sub-<id>-<build>.out
    for b in ["miri", "cov"] {
        let pth = format!("{}/harness/target/sub-{}-{}.out", a.verif, m.id, b);
        if let Ok(text) = std::fs::read_to_string(&pth) {
            absorb_sub_output(&text, b, &mut rep);
            builds.push(J::s(format!("{} (external child)", b)));
            let _ = std::fs::remove_file(&pth);
        }
    }
    let cfg = RunCfg { tier: a.tier, seed: a.seed, build: build_tag(), shard: 0, nshards: 1, scale: a.scale, part: String::new() };
    (m.finish)(&mut rep, &cfg);

    let known = match load_known(&format!("{}/KNOWN_FINDINGS.txt", a.verif)) {
        Ok(k) => k,
        Err(e) => {
            println!("INCONCLUSIVE property={} {}", m.id, e);
            return 2;
        }
    };

    let mut known_hit: Vec<J> = Vec::new();
    let mut violations: Vec<&Finding> = Vec::new();
    for f in rep.findings.values() {
        if known.findings.contains_key(&(m.id.to_string(), f.key.clone())) {
            println!("KNOWN-FINDING: property={} key={} observed={} :: {}", m.id, f.key, f.count, f.desc);
            known_hit.push(J::obj(vec![("key", J::s(f.key.clone())), ("observed", J::u(f.count)), ("witness", J::s(f.desc.clone())), ("case", J::s(f.case.clone()))]));
        } else {
            violations.push(f);
        }
    }
    let _ = std::fs::create_dir_all(format!("{}/replays", a.verif));
    let mut viol_json = Vec::new();
    for f in &violations {
        let h = crate::rng::hash_bytes(7, f.key.as_bytes()) & 0xFFFF_FFFF;
        let path = format!("{}/replays/{}-{:08x}.json", a.verif, m.id, h);
        let j = J::obj(vec![
            ("property", J::s(m.id)),
            ("key", J::s(f.key.clone())),
            ("what", J::s(f.desc.clone())),
            ("case", J::s(f.case.clone())),
            ("observed", J::u(f.count)),
            ("seed", J::u(a.seed)),
            ("tier", J::s(a.tier.name())),
            // which build of the harness + library observed it (a release-only defect does not
            // reproduce under the chk build); ./check replay picks the binary accordingly
            ("build", J::s(if f.desc.starts_with("[rel build]") { "rel" } else { "chk" })),
            ("replay_cmd", J::s(format!("./check {} replay {}", m.id, path))),
        ]);
        let _ = std::fs::write(&path, j.pretty());
        println!("VIOLATION property={} replay={}", m.id, path);
        println!("  key={} observed={} :: {}", f.key, f.count, f.desc);
        viol_json.push(J::obj(vec![("key", J::s(f.key.clone())), ("observed", J::u(f.count)), ("what", J::s(f.desc.clone())), ("replay", J::s(path))]));
    }

    // event log for the offline checker
    let trace_path = format!("{}/evidence/traces/{}-{}.jsonl", a.verif, m.id, a.tier.name());
    let _ = std::fs::remove_file(&trace_path);
    if !rep.trace.is_empty() {
        let _ = std::fs::create_dir_all(format!("{}/evidence/traces", a.verif));
        let mut text = rep.trace.join("\n");
        text.push('\n');
        if std::fs::write(&trace_path, text).is_ok() {
            rep.extra.push(("trace_file".into(), J::s(trace_path.clone())));
            rep.extra.push(("trace_events".into(), J::u(rep.trace.len() as u64)));
        }
    }
    let wall = t0.elapsed().as_secs_f64();
    let verdict = if !violations.is_empty() {
        "violated"
    } else if !rep.inconclusive.is_empty() {
        "inconclusive"
    } else {
        "held on everything observed"
    };
    // evidence
    let mut cov: Vec<(String, J)> = vec![
        ("evaluations".into(), J::u(rep.evaluations)),
        ("distinct_nontrivial".into(), J::u(rep.distinct_count())),
        (
            "rule".into(),
            J::s(format!(
                "{}{} Distinct cases are counted by inserting a 64-bit hash of each non-trivial case into a set (capped at {} per shard{}; counting is conservative beyond the cap).",
                m.rule,
                if ["C01", "C03", "C04", "C05", "C06", "C07", "C08"].contains(&m.id) {
                    " Output buffers: one call in three that produced a packet is observed again into a buffer of exactly the reported length (or 1-2 bytes more) and that observation is the one judged; one in twelve goes into a buffer of a landmark size (255, 256, 257, 260, 511, 512, 1024, 4096); one in sixteen is repeated into a buffer 1-6 bytes too short, where a refusal or panic is not judged but a reported success is judged as the encoding it claims to be (observed_classes buffer:*). One random call in three runs after a history on the encoding context: earlier encodes, processed and decoded packets with foreign header bits, and conversations (a request to a peer followed by the peer's Success response to that command, with arguments and fields related to the addresses of the judged call)."
                } else {
                    ""
                },
                crate::report::DISTINCT_CAP_PER_SHARD,
                if rep.distinct_saturated { ", cap reached in this run" } else { "" }
            )),
        ),
        ("samples".into(), J::Arr(rep.samples.clone())),
        ("exhaustive".into(), J::Bool(rep.exhaustive)),
        ("exhaustive_subspaces".into(), J::arr_str(&rep.exhaustive_spaces)),
        ("observed_classes".into(), J::map_u64(&rep.classes)),
        ("builds".into(), J::Arr(builds)),
        ("known_findings_matched".into(), J::Arr(known_hit)),
        ("violations".into(), J::Arr(viol_json)),
        ("inconclusive_reasons".into(), J::arr_str(&rep.inconclusive)),
        ("notes".into(), J::arr_str(&rep.notes)),
        ("verdict".into(), J::s(verdict)),
    ];
    for (k, v) in rep.extra.drain(..) {
        cov.push((k, v));
    }
    let ev = J::Obj(vec![
        ("property_id".into(), J::s(m.id)),
        ("tier".into(), J::s(a.tier.name())),
        ("seed".into(), J::Int(a.seed as i64 as i128)),
        ("level".into(), J::s("exploration")),
        ("coverage".into(), J::Obj(cov)),
        ("assumptions".into(), J::Arr(m.assumptions.iter().map(|s| J::s(*s)).collect())),
        ("wall_s".into(), J::Num(wall)),
        ("violations".into(), J::u(violations.len() as u64)),
    ]);
    let _ = std::fs::create_dir_all(format!("{}/evidence", a.verif));
    let ev_path = format!("{}/evidence/{}.json", a.verif, m.id);
    if let Err(e) = std::fs::write(&ev_path, ev.pretty()) {
        println!("INCONCLUSIVE property={} cannot write evidence {}: {}", m.id, ev_path, e);
        return 2;
    }
    println!(
        "{} {} seed={} build={}: {} oracle evaluations, {} distinct non-trivial cases, {} known findings observed, {} violations, {:.1}s -> {}",
        m.id,
        a.tier.name(),
        a.seed,
        build_tag(),
        rep.evaluations,
        rep.distinct_count(),
        rep.findings.len() - violations.len(),
        violations.len(),
        wall,
        verdict
    );
    if !violations.is_empty() {
        return 1;
    }
    if !rep.inconclusive.is_empty() {
        for s in &rep.inconclusive {
            println!("INCONCLUSIVE property={} {}", m.id, s);
        }
        return 2;
    }
    0
}
