//! C14 — vendor ID sets can be enumerated completely by following selectors.

use super::c13::run_history;
use super::hist::*;
use super::*;
use crate::json::J;
use crate::libapi::*;
use crate::refmodel::endpoint::*;
use crate::refmodel::forge::ctrl_request;
use crate::rng::{hash_bytes, Rng};

pub fn mon() -> Mon {
    Mon {
        id: "C14",
        title: "Vendor ID sets can be enumerated completely by following selectors",
        run,
        finish,
        replay,
        rule: "Random valid configurations: every n in 1..=16, every PCI/IANA format mix for n <= 8 (2^n) and random mixes above, random identifier (PCI sets with a non-zero high half) and numeric values, including value-identical (duplicated) sets. For each configuration: (1) the selector walk from 0 following the returned next-selector, which must visit sets 0..n-1 exactly once in order and stop at 0xFF, each response compared byte-for-byte with the literal layout [Success, next, format, id MSB-first, value MSB-first]; (2) every selector < n queried in several random orders, interleaved with other traffic (Set/Get EID, other queries, responses, vendor messages, corrupted packets, decode-only calls, out-of-range selectors) on two interleaved contexts, every Get Vendor Defined Message Support response judged against the model. A sample is logged as JSONL and re-checked in Python. Non-trivial = a configuration whose walk completed; distinct = distinct (configuration, query order) hashes.",
        assumptions: &["selectors >= n are outside this claim (C10 judges that they do not panic)", "valid configurations only: 1-16 sets, format 0 or 1"],
        children: rel_child_quarter,
    }
}

const OWNED: super::c13::Owned = super::c13::Owned { cats: &["get-vendor", "no-response", "wrong-command", "malformed-response"], cmds: &[0x06], must_answer: &[0x06] };

fn vendor_req(own: u8, rng: &mut Rng, sel: u8) -> Vec<u8> {
    ctrl_request(own & 0x7F, rng.byte() & 0x7F, rng.byte() & 0x1F, false, 0x06, &[sel])
}

/// The walk: start at 0, follow returned selectors. Judged without the model's next-selector so
/// that the "visits every set exactly once, in order, then stops" claim is checked directly.
pub fn check_walk(cfgc: &CtxCfg, pre: &[Op], rng_seed: u64, rep: &mut Report) {
    let n = cfgc.vendors.len();
    let m = Model::new(cfgc);
    let mut rng = Rng::new(rng_seed);
    let case = || format!("walk|{}|{:x}|{}", cfgc.encode(), rng_seed, pre.iter().map(|o| o.encode()).collect::<Vec<_>>().join(","));
    with_contexts(std::slice::from_ref(cfgc), |ctxs| {
        let ctx = &mut ctxs[0];
        for o in pre {
            exec(ctx, o, 96, 1);
        }
        let mut sel = 0u8;
        let mut visited: Vec<u8> = Vec::new();
        for step in 0..(n + 3) {
            let req = vendor_req(cfgc.addr, &mut rng, sel);
            let obs = exec(ctx, &Op::Process(req.clone()), 64 + step * 3, 0xC14 + step as u64);
            rep.eval();
            let resp = match &obs.resp {
                Some(r) => r.clone(),
                None => {
                    rep.violation("walk:no-response", || format!("selector {} of {} sets got no response: {}", sel, n, obs.proc.as_ref().map(|p| p.brief()).unwrap_or_default()), case);
                    return;
                }
            };
            let vw = match view(&resp) {
                Some(v) if v.cmd == 0x06 => v,
                _ => {
                    rep.violation("walk:malformed-response", || format!("selector {}: response {}", sel, crate::json::hex(&resp)), case);
                    return;
                }
            };
            let want_field = m.vendor_field(sel as usize);
            if vw.data.len() < 2 || vw.data[0] != 0x00 {
                rep.violation("walk:not-success", || format!("selector {} < n={} answered with data {}", sel, n, crate::json::hex(vw.data)), case);
                return;
            }
            if vw.data[2..] != want_field[..] {
                rep.violation(
                    "walk:wrong-vendor-field",
                    || format!("selector {}: vendor field {} != configured set {:?} encoded as {}", sel, crate::json::hex(&vw.data[2..]), cfgc.vendors[sel as usize], crate::json::hex(&want_field)),
                    case,
                );
                return;
            }
            visited.push(sel);
            let next = vw.data[1];
            if next == 0xFF {
                break;
            }
            if next as usize >= n || visited.contains(&next) {
                rep.violation("walk:bad-next-selector", || format!("selector {} of {} sets returned next selector {:#04x} (visited so far {:?})", sel, n, next, visited), case);
                return;
            }
            sel = next;
        }
        let want: Vec<u8> = (0..n as u8).collect();
        if visited != want {
            rep.violation("walk:incomplete-or-out-of-order", || format!("walk over {} sets visited {:?}", n, visited), case);
        } else {
            rep.class(&format!("walk-complete:n={}", n));
        }
    });
}

fn gen_cfg(rng: &mut Rng, n: usize, mask: Option<u32>) -> CtxCfg {
    let mut vendors = Vec::new();
    for i in 0..n {
        let fmt = match mask {
            Some(m) => ((m >> i) & 1) as u8,
            None => rng.below(2) as u8,
        };
        let data = match rng.below(4) {
            0 => *rng.pick(&[0u32, 0xFFFF_FFFF, 0x0000_FFFF, 0xFFFF_0000, 0x0001_0000, 0x8000_0001]),
            _ => rng.next() as u32,
        };
        vendors.push((fmt, data, rng.next() as u16));
    }
    // value-identical sets are legal configurations: duplicate some entries (in particular make
    // earlier entries equal to the last one, and sometimes all of them equal)
    if n >= 2 {
        match rng.below(6) {
            0 => {
                let j = rng.below(n as u64) as usize;
                let i = rng.below(n as u64) as usize;
                vendors[i] = vendors[j];
            }
            1 => {
                let i = rng.below(n as u64 - 1) as usize;
                vendors[i] = vendors[n - 1];
            }
            2 if mask.is_none() => {
                let v = vendors[0];
                for e in vendors.iter_mut() {
                    *e = v;
                }
            }
            _ => {}
        }
    }
    let nt = rng.below(31) as usize;
    CtxCfg { addr: rng.byte() & 0x7F, types: rng.bytes(nt), vendors }
}

const TRAFFIC: [(Letter, u32); 11] = [
    (Letter::SetEid, 4),
    (Letter::GetEid, 3),
    (Letter::Query, 10),
    (Letter::ResponsePacket, 3),
    (Letter::VendorMsg, 2),
    (Letter::Corrupted, 3),
    (Letter::DecodeOnly, 3),
    (Letter::OtherRequest, 3),
    (Letter::Accessor, 1),
    (Letter::SetUuid, 1),
    (Letter::Garbage, 2),
];

fn one_config(cfgc: &CtxCfg, rng: &mut Rng, rep: &mut Report, trace: Option<u64>, orders: usize) {
    let n = cfgc.vendors.len();
    let m = Model::new(cfgc);
    // (1) walk, after a short random prelude
    let npre = if rng.chance(1, 50) { 260 + rng.below(300) } else { rng.below(6) };
    let pre: Vec<Op> = (0..npre).map(|_| instantiate(pick_letter(rng, &TRAFFIC), rng, &m)).collect();
    check_walk(cfgc, &pre, rng.next(), rep);
    // (2) every selector in random orders, interleaved with other traffic, on two contexts
    let on = 1 + rng.below(16) as usize;
    let other = gen_cfg(rng, on, None);
    let mo = Model::new(&other);
    for o in 0..orders {
        let mut sels: Vec<u8> = (0..n as u8).collect();
        for i in (1..sels.len()).rev() {
            sels.swap(i, rng.below(i as u64 + 1) as usize);
        }
        let mut ops: Vec<(usize, Op)> = Vec::new();
        let mut letters: Vec<Letter> = Vec::new();
        for s in &sels {
            ops.push((0, Op::Process(vendor_req(cfgc.addr, rng, *s))));
            letters.push(Letter::Query);
            let k = rng.below(3);
            for _ in 0..k {
                let l = pick_letter(rng, &TRAFFIC);
                let ci = rng.below(2) as usize;
                ops.push((ci, instantiate(l, rng, if ci == 0 { &m } else { &mo })));
                letters.push(l);
            }
        }
        let h = History { cfgs: vec![cfgc.clone(), other.clone()], ops };
        run_history(&h, Some(&letters), &OWNED, 0xC14, rep, trace.map(|t| t * 16 + o as u64));
        rep.nontrivial(hash_bytes(14, h.encode().as_bytes()));
        if rep.want_sample() && n <= 3 {
            rep.sample(|| {
                J::obj(vec![
                    ("history", J::s(h.encode())),
                    ("format", J::s("contexts 'addr/types-hex/format.id.value+...' joined by '~', then '#', then operations '<context index><P=process|D=decode|L=get_length|A=set_eid(request half)|B=set_eid(response half)|U=set_uuid>:<hex>'; every step was judged against the model")),
                ])
            });
        }
    }
}

fn run(cfg: &RunCfg) -> Report {
    let mut rep = Report::new();
    let mut rng = cfg.rng("c14");
    let ns = cfg.nshards as u64;
    let sh = cfg.shard as u64;
    let small = cfg.is_small();
    let mut idx = 0u64;
    if !small {
        // every n, every format mix for n <= 8
        for n in 1..=16usize {
            let mixes: Vec<Option<u32>> = if n <= 8 { (0..(1u32 << n)).map(Some).collect() } else { (0..64).map(|_| None).collect() };
            for mk in mixes {
                idx += 1;
                if idx % ns != sh {
                    continue;
                }
                let c = gen_cfg(&mut rng, n, mk);
                let tid = if sh == 0 && idx < 1200 { Some(idx) } else { None };
                one_config(&c, &mut rng, &mut rep, tid, 2);
                rep.class("systematic-configs");
            }
        }
    }
    // observe - N other queries - observe: the same selector asked again after N other (in-range and
    // out-of-range) selector queries, for every N in 1..=300
    if !small {
        let mut nh = 0u64;
        for n in 1..=300usize {
            idx += 1;
            if idx % ns != sh {
                continue;
            }
            let nv = 2 + rng.below(15) as usize;
            let c = gen_cfg(&mut rng, nv, None);
            let sel = rng.below(nv as u64) as u8;
            let requester = rng.byte() & 0x7F;
            let own = c.addr & 0x7F;
            let mut ops: Vec<(usize, Op)> = Vec::new();
            let q = |s: u8| Op::Process(ctrl_request(own, requester, 0, false, 0x06, &[s]));
            ops.push((0, q(sel)));
            for _ in 0..n {
                let s = if rng.chance(1, 3) { rng.range(nv as u64, 255) as u8 } else { rng.below(nv as u64) as u8 };
                ops.push((0, q(s)));
            }
            ops.push((0, q(sel)));
            let letters = vec![Letter::Query; ops.len()];
            let h = History { cfgs: vec![c], ops };
            run_history(&h, Some(&letters), &OWNED, 0xC14, &mut rep, None);
            nh += 1;
        }
        rep.class_n("observe-N-queries-observe-histories", nh);
    }
    // marathon: 66 000 complete walks on one context, every response judged (a counter of completed
    // enumerations in 16 bits wraps here)
    if !small && sh == 2 % ns {
        let c = gen_cfg(&mut rng, 3, None);
        let m = Model::new(&c);
        let own = c.addr & 0x7F;
        with_contexts(std::slice::from_ref(&c), |ctxs| {
            let ctx = &mut ctxs[0];
            'outer: for w in 0..66_000u32 {
                for sel in 0..3u8 {
                    let req = ctrl_request(own, 0x33, 0, false, 0x06, &[sel]);
                    let obs = exec(ctx, &Op::Process(req.clone()), 64, w as u64);
                    rep.eval();
                    let mut want = vec![0x00u8, if sel == 2 { 0xFF } else { sel + 1 }];
                    want.extend_from_slice(&m.vendor_field(sel as usize));
                    let ok = obs.resp.as_ref().and_then(|r| view(r).map(|v| v.cmd == 0x06 && v.data == &want[..])).unwrap_or(false);
                    if !ok {
                        rep.violation(
                            "walk:marathon",
                            || format!("walk number {} on one context, selector {}: {} / response {:?}, expected data {}", w + 1, sel, obs.proc.as_ref().map(|p| p.brief()).unwrap_or_default(), obs.resp.as_ref().map(|r| crate::json::hex(r)), crate::json::hex(&want)),
                            || format!("walk|{}|{:x}|", c.encode(), w),
                        );
                        break 'outer;
                    }
                }
            }
        });
        rep.class("marathon-of-66000-walks");
    }
    let n = if small { 3 } else { cfg.n(cfg.pick(120_000, 6_000_000)) / ns };
    for _ in 0..n {
        let nv = 1 + rng.below(16) as usize;
        let c = gen_cfg(&mut rng, nv, None);
        one_config(&c, &mut rng, &mut rep, None, 2);
        rep.class("random-configs");
    }
    rep
}

fn finish(rep: &mut Report, cfg: &RunCfg) {
    if cfg.is_small() {
        return;
    }
    floor(rep, cfg, 5_000);
    for n in 1..=16 {
        if !rep.classes.contains_key(&format!("walk-complete:n={}", n)) && rep.findings.is_empty() {
            rep.inconclusive.push(format!("no completed walk for n={}", n));
        }
    }
}

fn replay(case: &str, rep: &mut Report) -> Result<(), String> {
    if let Some(rest) = case.strip_prefix("walk|") {
        let parts: Vec<&str> = rest.split('|').collect();
        if parts.len() != 3 {
            return Err("bad walk case".into());
        }
        let c = CtxCfg::decode(parts[0]).ok_or("bad cfg")?;
        let seed = u64::from_str_radix(parts[1], 16).map_err(|_| "bad seed")?;
        let pre: Option<Vec<Op>> = if parts[2].is_empty() { Some(vec![]) } else { parts[2].split(',').map(Op::decode).collect() };
        check_walk(&c, &pre.ok_or("bad prelude")?, seed, rep);
        return Ok(());
    }
    let h = History::decode(case).ok_or("cannot parse history")?;
    run_history(&h, None, &OWNED, 0xC14, rep, None);
    Ok(())
}
