//! DSP0236 / DSP0237 code points and layouts as numeric literals. Nothing here is derived from
//! the library: a renumbered enum or a swapped table row in libmctp cannot make oracle and
//! library agree by construction.

/// MCTP-over-SMBus command code (DSP0237)
pub const SMBUS_CMD: u8 = 0x0F;
/// byte 4 of every packet: reserved nibble 0, header version 1
pub const HDR_BYTE: u8 = 0x01;
/// byte 7 for single-packet messages with TO=1, tag 0: SOM=1 EOM=1 seq=0 TO=1 tag=0
pub const FLAGS_REQ: u8 = 0xC8;
/// maximum total packet length on SMBus: byte count 255 + 4
pub const MAX_TOTAL: usize = 259;
/// maximum number of body bytes after the message-type byte (total 10 + body)
pub const MAX_BODY: usize = 249;

pub const TY_CONTROL: u8 = 0x00;
pub const TY_SPDM: u8 = 0x05;
pub const TY_SECURED: u8 = 0x06;
pub const TY_PCI: u8 = 0x7E;
pub const TY_IANA: u8 = 0x7F;
pub const SUPPORTED_TYPES: [u8; 5] = [0x00, 0x05, 0x06, 0x7E, 0x7F];

pub fn type_supported(t: u8) -> bool {
    SUPPORTED_TYPES.contains(&t)
}

// Enumeration values, in the order the catalogue indexes the library's variants by *name*.
/// SetEID, ForceEID, ResetEID, SetDiscoveredFlag
pub const SETEID_OPS: [u8; 4] = [0, 1, 2, 3];
/// MCTPBaseSpec, MCTPControlProcMessage, DSP0241, DSP0261, DSP0261_2
pub const VERSION_QUERIES: [u8; 5] = [0xFF, 0x00, 0x01, 0x02, 0x03];
/// AllocateEIDs, ForceAllocation, GetAllocationInformation
pub const ALLOC_OPS: [u8; 3] = [0, 1, 2];
/// MCtpControl, SpdmOverMctp, SecuredMessages, VendorDefinedPCI, VendorDefinedIANA, Invalid
pub const MSG_TYPE_VALUES: [u8; 6] = [0x00, 0x05, 0x06, 0x7E, 0x7F, 0xFF];
/// SingleEndpointNotBridge, EIDRangeIncludeBridge, SingleEndpointBridge, EIDRangeNotIncludeBridge
pub const ROUTE_TYPES: [u8; 4] = [0, 1, 2, 3];
/// Success, Error, ErrorInvalidData, ErrorInvalidLength, ErrorNotReady, ErrorUnsupportedCmd
pub const COMPLETION_CODES: [u8; 6] = [0, 1, 2, 3, 4, 5];
/// Accepted, Rejected
pub const ASSIGN_STATUS: [u8; 2] = [0, 1];
/// NoIDPool, RequiresAllocation, AlreadyAllocated
pub const ALLOC_STATUS: [u8; 3] = [0, 1, 2];
/// Simple, Bus
pub const ENDPOINT_TYPES: [u8; 2] = [0, 1];
/// DynamicEID, StaticEID, StaticPresentMatchEID, StaticPresentNoMatchEID
pub const EID_TYPES: [u8; 4] = [0, 1, 2, 3];

/// Version entry the library documents: one entry, 1.3.1
pub const VERSION_RESPONSE: [u8; 5] = [0x01, 0xF1, 0xF3, 0xF1, 0x00];

/// DSP0236 Table 12 command names by code point 0x00..=0x14
pub const COMMAND_NAMES: [&str; 21] = [
    "Reserved",
    "SetEndpointID",
    "GetEndpointID",
    "GetEndpointUUID",
    "GetMCTPVersionSupport",
    "GetMessageTypeSupport",
    "GetVendorDefinedMessageSupport",
    "ResolveEndpointID",
    "AllocateEndpointIDs",
    "RoutingInformationUpdate",
    "GetRoutingTableEntries",
    "PrepareForEndpointDiscovery",
    "EndpointDiscovery",
    "DiscoveryNotify",
    "GetNetworkID",
    "QueryHop",
    "ResolveUUID",
    "QueryRateLimit",
    "RequestTXRateLimit",
    "UpdateRateLimit",
    "QuerySupportedInterfaces",
];

/// C09: fixed request data lengths (command -> bytes after the command code)
pub fn req_fixed_len(cmd: u8) -> Option<usize> {
    match cmd {
        0x01 => Some(2),
        0x04 => Some(1),
        0x06 => Some(1),
        0x07 => Some(1),
        0x08 => Some(3),
        _ => None,
    }
}

/// C09: fixed response data lengths (command -> bytes after the completion code)
pub fn resp_fixed_len(cmd: u8) -> Option<usize> {
    match cmd {
        0x01 => Some(3),
        0x03 => Some(16),
        0x04 => Some(5),
        _ => None,
    }
}

/// C09: response commands whose expected length in the library disagrees with DSP0236 — outside
/// the C09 claim by the property's own text (Get Endpoint ID, Allocate Endpoint IDs, Routing
/// Information Update).
pub fn resp_len_outside_claim(cmd: u8) -> bool {
    matches!(cmd, 0x02 | 0x08 | 0x09)
}
