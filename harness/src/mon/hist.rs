//! History generator shared by C02, C12-C15: operation classes ("letters") instantiated with
//! seeded random parameters.

use crate::corpus;
use crate::refmodel::endpoint::*;
use crate::refmodel::forge::*;
use crate::refmodel::wire::*;
use crate::rng::Rng;

#[derive(Clone, Copy, Debug, PartialEq, Eq, Hash, PartialOrd, Ord)]
pub enum Letter {
    SetEid,
    SetDiscovered,
    GetEid,
    Query,
    ResponsePacket,
    VendorMsg,
    Corrupted,
    Truncated,
    DecodeOnly,
    Accessor,
    GetLength,
    SetEidOtherOp,
    OtherRequest,
    SetUuid,
    Garbage,
}

pub const ALPHABET9: [Letter; 9] = [
    Letter::SetEid,
    Letter::SetDiscovered,
    Letter::GetEid,
    Letter::Query,
    Letter::ResponsePacket,
    Letter::Corrupted,
    Letter::DecodeOnly,
    Letter::Accessor,
    Letter::VendorMsg,
];

impl Letter {
    pub fn name(self) -> &'static str {
        match self {
            Letter::SetEid => "set-eid-request",
            Letter::SetDiscovered => "set-discovered-flag",
            Letter::GetEid => "get-eid",
            Letter::Query => "identity-query",
            Letter::ResponsePacket => "response-packet",
            Letter::VendorMsg => "vendor-or-spdm-message",
            Letter::Corrupted => "corrupted-set-eid",
            Letter::Truncated => "truncated-packet",
            Letter::DecodeOnly => "decode-only",
            Letter::Accessor => "accessor-set_eid",
            Letter::GetLength => "get_length",
            Letter::SetEidOtherOp => "set-eid-reset-or-reserved-op",
            Letter::OtherRequest => "other-request",
            Letter::SetUuid => "set_uuid",
            Letter::Garbage => "random-bytes",
        }
    }
}

fn src_and_iid(rng: &mut Rng) -> (u8, u8) {
    (rng.byte() & 0x7F, rng.byte() & 0x1F)
}

pub fn set_eid_request(rng: &mut Rng, own: u8) -> Vec<u8> {
    let (mut s, iid) = src_and_iid(rng);
    let mut eid = rng.range(1, 0xFE) as u8;
    // related values: a requester that has the endpoint's own address, an EID equal to the
    // endpoint's address or to the requester's
    match rng.below(16) {
        0 => s = own & 0x7F,
        1 if own & 0x7F != 0 => eid = own & 0x7F,
        2 if s != 0 => eid = s,
        3 if own & 0x7F != 0 => {
            s = own & 0x7F;
            eid = own & 0x7F;
        }
        _ => {}
    }
    ctrl_request(own & 0x7F, s, iid, false, 0x01, &[rng.below(2) as u8, eid])
}

/// Instantiate a letter as a concrete operation for the endpoint described by `m`. One packet in four
/// gets arbitrary transport flags (SOM/EOM/sequence/TO/tag) - and, for control requests, sometimes the
/// reserved bit - with a recomputed PEC: the decoder is not supposed to look at them, a state machine
/// tracking message assembly would.
pub fn instantiate(l: Letter, rng: &mut Rng, m: &Model) -> Op {
    let op = instantiate_plain(l, rng, m);
    match op {
        Op::Process(mut p) if p.len() > 12 && crate::corpus::pec_ok(&p) && rng.chance(1, 4) => {
            p[7] = match rng.below(4) {
                0 => 0x80 | (rng.byte() & 0x3F),
                1 => rng.byte() & 0x3F,
                _ => rng.byte(),
            };
            if p[8] == 0 && rng.chance(1, 4) {
                p[9] |= 0x20;
            }
            fix_pec(&mut p);
            Op::Process(p)
        }
        o => o,
    }
}

fn instantiate_plain(l: Letter, rng: &mut Rng, m: &Model) -> Op {
    let own = m.cfg.addr & 0x7F;
    let n = m.cfg.vendors.len();
    match l {
        Letter::SetEid => Op::Process(set_eid_request(rng, own)),
        Letter::SetDiscovered => {
            let (s, iid) = src_and_iid(rng);
            Op::Process(ctrl_request(own, s, iid, false, 0x01, &[3, rng.byte()]))
        }
        Letter::GetEid => {
            let (mut s, iid) = src_and_iid(rng);
            if rng.chance(1, 8) {
                s = own;
            }
            Op::Process(ctrl_request(own, s, iid, false, 0x02, &[]))
        }
        Letter::Query => {
            let (s, iid) = src_and_iid(rng);
            Op::Process(match rng.below(4) {
                0 => ctrl_request(own, s, iid, false, 0x03, &[]),
                1 => ctrl_request(own, s, iid, false, 0x04, &[rng.edgy_byte()]),
                2 => ctrl_request(own, s, iid, false, 0x05, &[]),
                _ => ctrl_request(own, s, iid, false, 0x06, &[rng.below(n.max(1) as u64) as u8]),
            })
        }
        Letter::ResponsePacket => {
            let (s, iid) = src_and_iid(rng);
            Op::Process(match rng.below(4) {
                // a Set Endpoint ID *response* carrying an EID must not assign anything
                0 | 1 => ctrl_response(own, s, iid, 0x01, 0, &[0x00, rng.range(1, 0xFE) as u8, 0x00]),
                2 => ctrl_response(own, s, iid, 0x01, rng.range(1, 5) as u8, &[0x00, rng.byte(), 0x00]),
                _ => {
                    let cmd = *rng.pick(&[0x03u8, 0x04, 0x05, 0x06]);
                    let data: Vec<u8> = match cmd {
                        0x03 => rng.bytes(16),
                        0x04 => VERSION_RESPONSE.to_vec(),
                        _ => {
                            let k = 1 + rng.below(6) as usize;
                            rng.bytes(k)
                        }
                    };
                    ctrl_response(own, s, iid, cmd, 0, &data)
                }
            })
        }
        Letter::VendorMsg => Op::Process(corpus::forged_vendor(rng)),
        Letter::Corrupted => {
            let mut p = set_eid_request(rng, own);
            match rng.below(5) {
                0 | 1 => {
                    let k = p.len() - 1;
                    p[k] ^= 1 + rng.below(255) as u8;
                }
                2 => {
                    // damaged version / reserved bits, PEC recomputed
                    p[4] = *rng.pick(&[0x00u8, 0x02, 0x11, 0x81, 0xFF]);
                    fix_pec(&mut p);
                }
                3 => {
                    // unsupported type or IC bit, PEC recomputed
                    p[8] = *rng.pick(&[0x01u8, 0x80, 0x7D, 0xFF]);
                    fix_pec(&mut p);
                }
                _ => {
                    let off = rng.below(p.len() as u64 * 8) as usize;
                    corpus::apply_burst(&mut p, off, 0x80 | (rng.byte() & 0x7F));
                }
            }
            Op::Process(p)
        }
        Letter::Truncated => {
            let mut p = set_eid_request(rng, own);
            let k = rng.below(p.len() as u64) as usize;
            p.truncate(k);
            if rng.chance(1, 2) {
                fix_pec(&mut p);
            }
            Op::Process(p)
        }
        Letter::DecodeOnly => {
            let inner = *rng.pick(&[Letter::SetEid, Letter::SetEid, Letter::GetEid, Letter::Query, Letter::ResponsePacket, Letter::VendorMsg, Letter::Corrupted, Letter::Truncated]);
            match instantiate_plain(inner, rng, m) {
                Op::Process(p) => Op::Decode(p),
                o => o,
            }
        }
        Letter::Accessor => {
            if rng.chance(1, 2) {
                Op::AccReq(rng.byte())
            } else {
                Op::AccResp(rng.byte())
            }
        }
        Letter::GetLength => Op::GetLength(match instantiate_plain(Letter::SetEid, rng, m) {
            Op::Process(p) => p,
            _ => vec![0, 0x0F, 9],
        }),
        Letter::SetEidOtherOp => {
            let (s, iid) = src_and_iid(rng);
            let op = if rng.chance(1, 2) { 2 } else { rng.range(4, 255) as u8 };
            Op::Process(ctrl_request(own, s, iid, false, 0x01, &[op, rng.range(1, 0xFE) as u8]))
        }
        Letter::OtherRequest => {
            let (s, iid) = src_and_iid(rng);
            if rng.chance(1, 3) {
                // a request of an unsupported (or any) command whose data echoes the endpoint's own
                // identity: its UUID (15/16/17 bytes), its type list, one of its vendor fields
                let data: Vec<u8> = match rng.below(4) {
                    0 | 1 => {
                        let mut d = m.uuid.to_vec();
                        match rng.below(3) {
                            0 => d.truncate(15),
                            1 => {}
                            _ => d.push(if rng.chance(1, 2) { 0 } else { rng.byte() }),
                        }
                        d
                    }
                    2 => m.cfg.types.clone(),
                    _ => {
                        if n > 0 {
                            m.vendor_field(rng.below(n as u64) as usize)
                        } else {
                            vec![]
                        }
                    }
                };
                let cmd = if rng.chance(1, 2) { 0x10 } else { rng.range(0x07, 0x20) as u8 };
                return Op::Process(ctrl_request(own, s, iid, false, cmd, &data));
            }
            Op::Process(match rng.below(4) {
                0 => ctrl_request(own, s, iid, false, 0x06, &[rng.range(n as u64, 255) as u8]),
                1 => ctrl_request(own, s, iid, false, 0x00, &[]),
                2 => ctrl_request(own, s, iid, false, 0x07, &[rng.byte()]),
                _ => {
                    let cmd = rng.range(0x09, 0xFF) as u8;
                    let k = rng.below(4) as usize;
                    let d = rng.bytes(k);
                    ctrl_request(own, s, iid, false, cmd, &d)
                }
            })
        }
        Letter::SetUuid => {
            // random, but also the nil UUID, all-ones, and regular patterns
            let mut u = [0u8; 16];
            match rng.below(6) {
                0 => {}
                1 => u = [0xFF; 16],
                2 => u.copy_from_slice(&rng.pattern_bytes(16)),
                _ => rng.fill(&mut u),
            }
            Op::SetUuid(u)
        }
        Letter::Garbage => Op::Process(corpus::gen_any(rng)),
    }
}

/// Weighted random letter.
pub fn pick_letter(rng: &mut Rng, weights: &[(Letter, u32)]) -> Letter {
    let total: u32 = weights.iter().map(|w| w.1).sum();
    let mut r = rng.below(total as u64) as u32;
    for (l, w) in weights {
        if r < *w {
            return *l;
        }
        r -= *w;
    }
    weights[0].0
}
