//! Receive-path packet corpus: valid packets (library-encoded and forged), field sweeps,
//! truncations, corruptions, random byte strings with plausible headers, padded packets.

use crate::catalog::*;
use crate::refmodel::crc::crc8;
use crate::refmodel::forge::*;
use crate::refmodel::wire::*;
use crate::rng::Rng;

/// Data for a forged control message with a plausible length for its command.
fn ctrl_data(rng: &mut Rng, rq: bool, cmd: u8, right_len: bool) -> Vec<u8> {
    let fixed = if rq { req_fixed_len(cmd) } else { resp_fixed_len(cmd) };
    let n = if right_len {
        match fixed {
            Some(l) => l,
            None => match (rq, cmd) {
                (false, 0x02) => *rng.pick(&[3usize, 4]),
                (false, 0x05) => 1 + rng.below(8) as usize,
                (false, 0x06) => *rng.pick(&[4usize, 6, 8]),
                (true, 0x09) => 1 + 4 * rng.below(4) as usize,
                (true, 0x0A) => 1,
                (true, 0x0F) => 2,
                (true, 0x10) => 17,
                _ => {
                    if rng.chance(3, 4) {
                        0
                    } else {
                        rng.below(20) as usize
                    }
                }
            },
        }
    } else {
        match rng.below(8) {
            0 => rng.below(248) as usize,
            _ => rng.below(24) as usize,
        }
    };
    let mut d = rng.bytes(n);
    if rq && cmd == 0x01 && !d.is_empty() {
        // Set Endpoint ID: operation mostly Set/Force, sometimes Reset/Discovered, rarely out of range
        d[0] = match rng.below(16) {
            0 => 2,
            1 | 2 => 3,
            3 => rng.byte(),
            _ => rng.below(2) as u8,
        };
        if d.len() > 1 && rng.chance(7, 8) {
            d[1] = rng.range(1, 0xFE) as u8;
        }
    }
    if rq && cmd == 0x06 && !d.is_empty() && rng.chance(7, 8) {
        d[0] = rng.below(3) as u8;
    }
    d
}

pub fn random_cmd(rng: &mut Rng) -> u8 {
    match rng.below(20) {
        0..=11 => rng.range(1, 8) as u8,
        12 => 0,
        13..=16 => rng.range(9, 0x14) as u8,
        _ => rng.byte(),
    }
}

/// A forged control message (request or response) as another implementation might send it.
pub fn forged_ctrl(rng: &mut Rng) -> Vec<u8> {
    let rq = rng.chance(3, 5);
    let cmd = random_cmd(rng);
    let right_len = rng.chance(3, 4);
    let data = ctrl_data(rng, rq, cmd, right_len);
    let dst = rng.byte() & 0x7F;
    let src = rng.byte() & 0x7F;
    let iid = rng.byte() & 0x1F;
    let mut p = if rq {
        ctrl_request(dst, src, iid, rng.chance(1, 10), cmd, &data)
    } else {
        let cc = match rng.below(20) {
            0..=11 => 0,
            12..=16 => rng.range(1, 5) as u8,
            _ => rng.byte(),
        };
        ctrl_response(dst, src, iid, cmd, cc, &data)
    };
    if rng.chance(1, 20) {
        p[9] |= 0x20; // reserved bit of the control header
        fix_pec(&mut p);
    }
    p
}

/// A forged vendor-defined / SPDM / secured message.
pub fn forged_vendor(rng: &mut Rng) -> Vec<u8> {
    let ty = *rng.pick(&[TY_PCI, TY_IANA, TY_SPDM, TY_SECURED]);
    let n = match rng.below(8) {
        0 => 0,
        1 => rng.below(250) as usize,
        2 => 249 - rng.below(3) as usize,
        _ => rng.below(32) as usize,
    };
    let body = rng.bytes(n);
    let dst = rng.byte() & 0x7F;
    let src = rng.byte() & 0x7F;
    frame(dst, src, rng.byte(), rng.byte(), if rng.chance(3, 4) { FLAGS_REQ } else { rng.byte() }, ty, &body)
}

/// A packet produced by the library's own encoders (None if the drawn call was refused / panicked).
pub fn lib_encoded(rng: &mut Rng) -> Option<Vec<u8>> {
    let form = *rng.pick(&ALL_FORMS);
    let c = Call::random(form, rng, true, 249);
    encode_ok(&c)
}

/// Any well-formed packet.
pub fn gen_valid(rng: &mut Rng) -> Vec<u8> {
    match rng.below(10) {
        0..=2 => lib_encoded(rng).unwrap_or_else(|| forged_ctrl(rng)),
        3..=7 => forged_ctrl(rng),
        _ => forged_vendor(rng),
    }
}

/// Flip a burst: `pattern` is 8 bits wide with its leading (0x80) bit set; applied MSB-first at
/// bit offset `off` (bits beyond the end are dropped). Returns false if nothing was flipped.
pub fn apply_burst(p: &mut [u8], off: usize, pattern: u8) -> bool {
    let nbits = p.len() * 8;
    let mut changed = false;
    for k in 0..8 {
        if pattern & (0x80 >> k) != 0 {
            let bit = off + k;
            if bit < nbits {
                p[bit / 8] ^= 0x80 >> (bit % 8);
                changed = true;
            }
        }
    }
    changed
}

#[derive(Clone, Copy, Debug, PartialEq, Eq)]
pub enum Mutation {
    None,
    Truncate,
    FieldFixPec,
    FieldNoFix,
    WrongPec,
    Burst,
    MultiDamage,
    PadZeros,
    Extend,
}

/// Apply one random mutation in place; returns which.
pub fn mutate(rng: &mut Rng, p: &mut Vec<u8>) -> Mutation {
    if p.is_empty() {
        return Mutation::None;
    }
    match rng.below(16) {
        0 | 1 => {
            let k = rng.below(p.len() as u64) as usize;
            p.truncate(k);
            if rng.chance(1, 2) && !p.is_empty() {
                fix_pec(p);
            }
            Mutation::Truncate
        }
        2..=5 => {
            let lim = p.len().min(13);
            let i = rng.below(lim as u64) as usize;
            p[i] = rng.edgy_byte();
            fix_pec(p);
            Mutation::FieldFixPec
        }
        6 | 7 => {
            let i = rng.below(p.len() as u64) as usize;
            let old = p[i];
            while p[i] == old {
                p[i] = rng.byte();
            }
            Mutation::FieldNoFix
        }
        8 | 9 => {
            let n = p.len();
            let d = 1 + rng.below(255) as u8;
            p[n - 1] ^= d;
            Mutation::WrongPec
        }
        10 | 11 => {
            let off = rng.below(p.len() as u64 * 8) as usize;
            let pat = 0x80 | (rng.byte() & 0x7F);
            apply_burst(p, off, pat);
            Mutation::Burst
        }
        12 => {
            let k = 2 + rng.below(4);
            for _ in 0..k {
                let i = rng.below(p.len() as u64) as usize;
                p[i] ^= 1 + rng.below(255) as u8;
            }
            Mutation::MultiDamage
        }
        13 => {
            let k = 1 + rng.below(20) as usize;
            p.extend(std::iter::repeat(0u8).take(k));
            Mutation::PadZeros
        }
        14 => {
            // longer message with recomputed count/PEC (keeps headers, changes data length)
            let k = 1 + rng.below(6) as usize;
            let n = p.len();
            let tail = rng.bytes(k);
            p.truncate(n - 1);
            p.extend_from_slice(&tail);
            p.push(0);
            fix_count_and_pec(p);
            Mutation::Extend
        }
        _ => Mutation::None,
    }
}

/// Uniformly random bytes of length n, optionally with fixed-up header bytes and PEC so that
/// random data gets past the cheap checks.
pub fn random_string(rng: &mut Rng, n: usize) -> Vec<u8> {
    let mut p = rng.bytes(n);
    let fix = rng.below(4);
    if fix >= 1 {
        if n > 1 {
            p[1] = SMBUS_CMD;
        }
        if n > 4 {
            p[4] = HDR_BYTE;
        }
        if n > 8 {
            p[8] = *rng.pick(&SUPPORTED_TYPES);
        }
    }
    if fix >= 2 {
        if n > 10 && p[8] == TY_CONTROL {
            p[10] = random_cmd(rng);
            if n > 11 && p[9] & 0x80 == 0 && rng.chance(1, 2) {
                p[11] = 0;
            }
        }
        if n > 2 {
            p[2] = n.wrapping_sub(4) as u8;
        }
        if rng.chance(3, 4) {
            fix_pec(&mut p);
        }
    }
    p
}

/// The general receive-path mixture.
pub fn gen_any(rng: &mut Rng) -> Vec<u8> {
    match rng.below(10) {
        0..=2 => gen_valid(rng),
        3..=7 => {
            let mut p = gen_valid(rng);
            let k = 1 + rng.below(2);
            for _ in 0..k {
                mutate(rng, &mut p);
            }
            p
        }
        _ => {
            let n = match rng.below(10) {
                0 => rng.below(14) as usize,
                1 => rng.range(250, 263) as usize,
                2 => rng.range(500, 600) as usize,
                _ => rng.below(260) as usize,
            };
            random_string(rng, n)
        }
    }
}

/// A forged control request the responder can answer (the 7 answerable command forms), with the
/// vendor selector below `nsets`. Returns (packet, command).
pub fn answerable_request(rng: &mut Rng, dst7: u8, src7: u8, iid: u8, nsets: usize) -> Vec<u8> {
    match rng.below(8) {
        0 | 1 => {
            let op = *rng.pick(&[0u8, 0, 1, 1, 3]);
            ctrl_request(dst7, src7, iid, false, 0x01, &[op, rng.range(1, 0xFE) as u8])
        }
        2 => ctrl_request(dst7, src7, iid, false, 0x02, &[]),
        3 => ctrl_request(dst7, src7, iid, false, 0x03, &[]),
        4 => ctrl_request(dst7, src7, iid, false, 0x04, &[rng.edgy_byte()]),
        5 => ctrl_request(dst7, src7, iid, false, 0x05, &[]),
        _ => ctrl_request(dst7, src7, iid, false, 0x06, &[rng.below(nsets.max(1) as u64) as u8]),
    }
}

pub fn pec_ok(p: &[u8]) -> bool {
    !p.is_empty() && crc8(&p[..p.len() - 1]) == p[p.len() - 1]
}

/// A deterministic set of well-formed base packets covering every message type, every library
/// encoder, and forged requests/responses for every defined command (same for all shards).
pub fn base_packets(seed: u64) -> Vec<Vec<u8>> {
    let mut rng = Rng::new(crate::rng::mix(seed, 0xBA5E));
    let mut v: Vec<Vec<u8>> = Vec::new();
    for &form in ALL_FORMS.iter() {
        for _ in 0..8 {
            let c = Call::random(form, &mut rng, true, 40);
            if let Some(p) = encode_ok(&c) {
                v.push(p);
                break;
            }
        }
    }
    for cmd in 0..=0x15u8 {
        for rq in [true, false] {
            let data = ctrl_data(&mut rng, rq, cmd, true);
            let (d, s, iid) = (rng.byte() & 0x7F, rng.byte() & 0x7F, rng.byte() & 0x1F);
            v.push(if rq { ctrl_request(d, s, iid, false, cmd, &data) } else { ctrl_response(d, s, iid, cmd, 0, &data) });
        }
    }
    for cc in 1..=6u8 {
        v.push(ctrl_response(0x10, 0x20, cc, 0x01 + (cc % 6), cc, &[]));
    }
    for ty in [TY_PCI, TY_IANA, TY_SPDM, TY_SECURED] {
        for n in [0usize, 1, 5, 40] {
            let body = rng.bytes(n);
            v.push(frame(rng.byte() & 0x7F, rng.byte() & 0x7F, rng.byte(), rng.byte(), FLAGS_REQ, ty, &body));
        }
    }
    // maximum-length packets
    v.push(frame(0x11, 0x22, 0x11, 0x22, FLAGS_REQ, TY_PCI, &rng.bytes(249)));
    v.push(ctrl_response(0x11, 0x22, 1, 0x05, 0, &rng.bytes(246)));
    v.push(ctrl_request(0x11, 0x22, 1, false, 0x03, &rng.bytes(247)));
    // longer than any SMBus packet (byte count wraps), PEC consistent over the whole string
    for (ty, n) in [(TY_PCI, 290usize), (TY_SPDM, 515)] {
        let mut p = frame(0x11, 0x22, 0x11, 0x22, FLAGS_REQ, ty, &rng.bytes(n));
        fix_count_and_pec(&mut p);
        v.push(p);
    }
    let mut p = ctrl_request(0x11, 0x22, 1, false, 0x02, &rng.bytes(300));
    fix_count_and_pec(&mut p);
    v.push(p);
    v
}

#[derive(Clone, Debug)]
pub struct RxPlan {
    /// field sweep: bytes 0..13 of every base packet through all 256 values
    pub field_sweep: bool,
    /// command x direction x data length sweep up to this data length
    pub cmd_len_max: usize,
    pub truncations: bool,
    pub lengths: bool,
    pub random: u64,
}

/// Enumerate the receive corpus; `f(input, rng)` is invoked for the items of this shard only.
pub fn for_each_input(cfg: &crate::RunCfg, label: &str, plan: &RxPlan, f: &mut dyn FnMut(&[u8], &mut Rng)) {
    let mut rng = cfg.rng(label);
    let ns = cfg.nshards as u64;
    let sh = cfg.shard as u64;
    let mut counter = 0u64;
    let bases = base_packets(cfg.seed);
    macro_rules! item {
        ($make:expr) => {{
            if counter % ns == sh {
                let p: Vec<u8> = $make;
                f(&p, &mut rng);
            }
            counter += 1;
        }};
    }
    // (a) bases as they are, and (g) zero-padded
    for b in &bases {
        item!(b.clone());
        item!({
            let mut p = b.clone();
            p.extend(std::iter::repeat(0u8).take(1 + rng.below(24) as usize));
            p
        });
    }
    // (a') re-framed copies: what a driver that consumes or re-inserts the address byte could hand
    // over - first byte dropped, an address byte prepended, last byte dropped / doubled - addressed
    // to the fixed addresses some receiving contexts have (0x23, 0x7F) and to the packet's own
    for b in &bases {
        for addr in [0x23u8, 0x7F, b[0] >> 1] {
            let mut t = b.clone();
            t[0] = addr << 1;
            fix_pec(&mut t);
            item!(t[1..].to_vec());
            item!({
                let mut p = vec![addr << 1];
                p.extend_from_slice(&t);
                p
            });
            item!(t[..t.len() - 1].to_vec());
            item!({
                let mut p = t.clone();
                p.push(*t.last().unwrap());
                p
            });
        }
    }
    // (a'') packets with the IC bit set that carry a plausible message integrity check before the PEC:
    // CRC-32C / CRC-32 of the message in either byte order, computed from the transport header, the
    // message-type byte or the body onwards. The decoder must reject every one of them (IC set).
    for b in &bases {
        for v in ic_trailer_variants(b) {
            item!({
                let mut p = v.clone();
                // one in three with a deliberately wrong PEC
                if rng.chance(1, 3) {
                    let l = p.len();
                    p[l - 1] ^= 0x3C;
                }
                p
            });
        }
    }
    // (c) field sweeps
    if plan.field_sweep {
        for b in &bases {
            let lim = b.len().min(13);
            for i in 0..lim {
                for v in 0..=255u8 {
                    item!({
                        let mut p = b.clone();
                        p[i] = v;
                        fix_pec(&mut p);
                        p
                    });
                    if v % 4 == (i as u8) % 4 {
                        item!({
                            let mut p = b.clone();
                            p[i] = v;
                            p
                        });
                    }
                }
            }
        }
    }
    // (b) command x direction x data length, valid PEC; completion codes; operations; selectors
    if plan.cmd_len_max > 0 {
        for cmd in 0..=255u8 {
            for rq in [true, false] {
                let lmax = if cmd <= 0x16 || cmd >= 0xFE { plan.cmd_len_max } else { 3 };
                for len in 0..=lmax {
                    item!({
                        let data = rng.bytes(len);
                        let (d, s, iid) = (rng.byte() & 0x7F, rng.byte() & 0x7F, rng.byte() & 0x1F);
                        if rq {
                            ctrl_request(d, s, iid, false, cmd, &data)
                        } else {
                            ctrl_response(d, s, iid, cmd, 0, &data)
                        }
                    });
                }
            }
            for cc in 0..=255u8 {
                if cmd <= 0x0A || cc <= 6 || cc == cmd {
                    item!({
                        let data = ctrl_data(&mut rng, false, cmd, true);
                        ctrl_response(rng.byte() & 0x7F, rng.byte() & 0x7F, rng.byte() & 0x1F, cmd, cc, &data)
                    });
                }
            }
        }
        for op in 0..=255u8 {
            for eid in [0x00u8, 0x01, 0x42, 0xFE, 0xFF] {
                item!(ctrl_request(rng.byte() & 0x7F, rng.byte() & 0x7F, rng.byte() & 0x1F, false, 0x01, &[op, eid]));
            }
            item!(ctrl_request(rng.byte() & 0x7F, rng.byte() & 0x7F, rng.byte() & 0x1F, false, 0x06, &[op]));
            item!(ctrl_request(rng.byte() & 0x7F, rng.byte() & 0x7F, rng.byte() & 0x1F, false, 0x04, &[op]));
        }
        // every control header byte 0 value (Rq, D, reserved, instance ID)
        for b9 in 0..=255u8 {
            for cmd in [0x01u8, 0x02, 0x03, 0x04, 0x05, 0x06] {
                item!({
                    let rq = b9 & 0x80 != 0;
                    let data = ctrl_data(&mut rng, rq, cmd, true);
                    let mut p = if rq { ctrl_request(0x12, 0x34, 0, false, cmd, &data) } else { ctrl_response(0x12, 0x34, 0, cmd, 0, &data) };
                    p[9] = b9;
                    fix_pec(&mut p);
                    p
                });
            }
        }
        // every type byte (IC x 128 types), with and without a good PEC
        for b8 in 0..=255u8 {
            for n in [0usize, 3, 17] {
                item!(frame(0x12, 0x34, 0x12, 0x34, FLAGS_REQ, b8, &rng.bytes(n)));
            }
            item!({
                let mut p = frame(0x12, 0x34, 0x12, 0x34, FLAGS_REQ, b8, &[0x80, 0x02]);
                let n = p.len();
                p[n - 1] ^= 0x10;
                p
            });
        }
    }
    // (d) truncations, with the cut byte left as is / PEC recomputed, and empty input
    if plan.truncations {
        item!(Vec::new());
        for b in &bases {
            for k in 0..b.len() {
                item!(b[..k].to_vec());
                item!({
                    let mut p = b[..k].to_vec();
                    fix_pec(&mut p);
                    p
                });
            }
        }
    }
    // (f) every total length, plausible headers, all types; overflow-sensitive lengths
    if plan.lengths {
        let lens: Vec<usize> = (0..=263).chain(508..=519).collect();
        for &n in &lens {
            for ty in SUPPORTED_TYPES {
                for variant in 0..3u8 {
                    item!({
                        let mut p = rng.bytes(n);
                        if n > 1 {
                            p[1] = SMBUS_CMD;
                        }
                        if n > 2 {
                            p[2] = n.wrapping_sub(4) as u8;
                        }
                        if n > 4 {
                            p[4] = HDR_BYTE;
                        }
                        if n > 8 {
                            p[8] = ty;
                        }
                        if ty == TY_CONTROL && n > 10 {
                            // request / success response / random direction
                            match variant {
                                0 => {
                                    p[9] |= 0x80;
                                    p[10] = *rng.pick(&[0x02u8, 0x03, 0x05]);
                                }
                                1 => {
                                    p[9] &= 0x7F;
                                    p[10] = *rng.pick(&[0x05u8, 0x06]);
                                    if n > 11 {
                                        p[11] = 0;
                                    }
                                }
                                _ => p[10] = random_cmd(&mut rng),
                            }
                        }
                        fix_pec(&mut p);
                        p
                    });
                }
            }
        }
    }
    // (e)/(f) random mixture
    let n = cfg.n(plan.random);
    for _ in 0..n {
        item!(gen_any(&mut rng));
    }
}

/// Copies of a well-formed packet with the IC bit set and a plausible message integrity check in
/// front of the PEC (byte count and PEC consistent). The decoder must reject every one (IC set).
pub fn ic_trailer_variants(b: &[u8]) -> Vec<Vec<u8>> {
    let mut out = Vec::new();
    if b.len() < 10 || b.len() > 120 || b[8] & 0x80 != 0 {
        return out;
    }
    for (poly, start, big) in [(0x82F6_3B78u32, 4usize, true), (0x82F6_3B78, 8, false), (0x82F6_3B78, 8, true), (0x82F6_3B78, 9, false), (0xEDB8_8320, 8, false), (0xEDB8_8320, 4, true)] {
        let mut p = b[..b.len() - 1].to_vec();
        p[8] |= 0x80;
        let c = crate::refmodel::crc::crc32_reflected(poly, &p[start..]);
        p.extend_from_slice(&if big { c.to_be_bytes() } else { c.to_le_bytes() });
        p.push(0);
        fix_count_and_pec(&mut p);
        out.push(p);
    }
    out
}
