//! C18 — header views read and write exactly their documented bit positions.

use super::*;
use crate::json::J;
use crate::rng::Rng;
use crate::trap::trap;
use libmctp::base_packet::{MCTPMessageBodyHeader, MCTPTransportHeader};
use libmctp::control_packet::MCTPControlMessageHeader;
use libmctp::smbus_proto::{MCTPSMBusHeader, SMBusRoutingInformationUpdateEntry};
use libmctp::vendor_packets::{IANAMessageFormat, PCIMessageFormat};
use std::hint::black_box as bb;

pub fn mon() -> Mon {
    Mon {
        id: "C18",
        title: "Header views read and write exactly their documented bit positions",
        run,
        finish,
        replay,
        rule: "Getters of the seven public header views on raw buffers: all 2^8 (body header) and 2^16 (control header, PCI) values, and for the 32-bit headers (SMBus, transport, routing entry, IANA) a 2^24 stratified sample plus walking patterns in quick / all 2^32 values in thorough; each getter is compared with a literal (byte, shift, mask) extraction. Setters: every field x every argument value (u8: 256, u16: 65 536, u32: sample + boundaries) x raw buffers {all-0, all-1, walking 1/0, random}; the new raw buffer must equal the old one with exactly that field replaced by the value truncated to the field width. Validators: MCTPTransportHeader::new_from_buf(buf, version) must succeed iff (buf[0]>>4)==0 && (buf[0]&0xF)==version; MCTPMessageBodyHeader::new_from_buf iff bit 7 clear and type supported. Distinct non-trivial = distinct (struct, raw value) / (field, raw, value) cases (sampled into a capped hash set: one in 4096 getter cases).",
        assumptions: &["field layouts are literals transcribed from DSP0236 table 1 / DSP0237 table 1 as documented in the library's doc comments", "std::hint::black_box keeps the optimiser from folding library and oracle together"],
        children: rel_child_quarter,
    }
}

const SUPPORTED: [u8; 5] = [0x00, 0x05, 0x06, 0x7E, 0x7F];

/// (struct index, raw value) -> Some(description) when a getter disagrees with the reference.
/// struct: 0 smbus, 1 transport, 2 body, 3 control, 4 routing, 5 pci, 6 iana
#[inline]
fn getters_bad(st: u8, raw: u32) -> Option<String> {
    let b = raw.to_be_bytes(); // b[0] is the first wire byte for 4-byte headers
    match st {
        0 => {
            let h = MCTPSMBusHeader::new_from_buf(bb(b));
            let got = (h.dest_read_write(), h.dest_slave_addr(), h.command_code(), h.byte_count(), h.source_read_write(), h.source_slave_addr());
            let want = (b[0] & 1, b[0] >> 1, b[1], b[2], b[3] & 1, b[3] >> 1);
            if bb(got) != want {
                return Some(format!("MCTPSMBusHeader({:02x?}) getters (rw,dest,cmd,count,srw,src) = {:?}, expected {:?}", b, got, want));
            }
        }
        1 => {
            let h = MCTPTransportHeader(bb(b));
            let got = (h.hdr_version(), h.dest_endpoint_id(), h.source_endpoint_id(), h.som(), h.eom(), h.pkt_seq(), h.to(), h.msg_tag());
            let want = (b[0] & 0x0F, b[1], b[2], b[3] >> 7, (b[3] >> 6) & 1, (b[3] >> 4) & 3, (b[3] >> 3) & 1, b[3] & 7);
            if bb(got) != want {
                return Some(format!("MCTPTransportHeader({:02x?}) getters (ver,dst,src,som,eom,seq,to,tag) = {:?}, expected {:?}", b, got, want));
            }
        }
        2 => {
            let v = raw as u8;
            let h = MCTPMessageBodyHeader(bb([v]));
            let got = h.msg_type();
            if bb(got) != v & 0x7F {
                return Some(format!("MCTPMessageBodyHeader([{:#04x}]).msg_type() = {:#04x}, expected {:#04x}", v, got, v & 0x7F));
            }
        }
        3 => {
            let c = [(raw >> 8) as u8, raw as u8];
            let h = MCTPControlMessageHeader::new_from_buf(bb(c));
            let got = (h.rq(), h.d(), h.instance_id(), h.command_code());
            let want = (c[0] >> 7, (c[0] >> 6) & 1, c[0] & 0x1F, c[1]);
            if bb(got) != want {
                return Some(format!("MCTPControlMessageHeader({:02x?}) getters (rq,d,iid,cmd) = {:?}, expected {:?}", c, got, want));
            }
        }
        4 => {
            let h = SMBusRoutingInformationUpdateEntry::new_from_buf(bb(b));
            let got = (h.entry_type(), h.eid_range_size(), h.first_eid(), h.physical_address());
            let want = (b[0] & 0x0F, b[1], b[2], b[3]);
            if bb(got) != want {
                return Some(format!("SMBusRoutingInformationUpdateEntry({:02x?}) getters (type,range,first,phys) = {:?}, expected {:?}", b, got, want));
            }
        }
        5 => {
            let c = [(raw >> 8) as u8, raw as u8];
            let h = PCIMessageFormat::new_from_buf(bb(c));
            let got = h.vendor_id();
            if bb(got) != raw as u16 {
                return Some(format!("PCIMessageFormat({:02x?}).vendor_id() = {:#06x}, expected {:#06x}", c, got, raw as u16));
            }
        }
        _ => {
            let h = IANAMessageFormat::new_from_buf(bb(b));
            let got = h.vendor_id();
            if bb(got) != raw {
                return Some(format!("IANAMessageFormat({:02x?}).vendor_id() = {:#010x}, expected {:#010x}", b, got, raw));
            }
        }
    }
    None
}

const STRUCT_NAMES: [&str; 7] = ["MCTPSMBusHeader", "MCTPTransportHeader", "MCTPMessageBodyHeader", "MCTPControlMessageHeader", "SMBusRoutingInformationUpdateEntry", "PCIMessageFormat", "IANAMessageFormat"];

/// Setter table: (struct, field index) -> name, first wire byte index, mask within a big-endian
/// view of the raw buffer (as u32 of the header's bytes), shift.
struct FieldSpec {
    st: u8,
    idx: u8,
    name: &'static str,
    /// bit mask of the field inside the header viewed as a big-endian integer of its bytes
    mask: u32,
    shift: u32,
}

const FIELDS: [FieldSpec; 24] = [
    // SMBus header (4 bytes): byte0 = raw>>24
    FieldSpec { st: 0, idx: 0, name: "MCTPSMBusHeader.dest_read_write", mask: 0x0100_0000, shift: 24 },
    FieldSpec { st: 0, idx: 1, name: "MCTPSMBusHeader.dest_slave_addr", mask: 0xFE00_0000, shift: 25 },
    FieldSpec { st: 0, idx: 2, name: "MCTPSMBusHeader.command_code", mask: 0x00FF_0000, shift: 16 },
    FieldSpec { st: 0, idx: 3, name: "MCTPSMBusHeader.byte_count", mask: 0x0000_FF00, shift: 8 },
    FieldSpec { st: 0, idx: 4, name: "MCTPSMBusHeader.source_read_write", mask: 0x0000_0001, shift: 0 },
    FieldSpec { st: 0, idx: 5, name: "MCTPSMBusHeader.source_slave_addr", mask: 0x0000_00FE, shift: 1 },
    // transport header
    FieldSpec { st: 1, idx: 0, name: "MCTPTransportHeader.hdr_version", mask: 0x0F00_0000, shift: 24 },
    FieldSpec { st: 1, idx: 1, name: "MCTPTransportHeader.dest_endpoint_id", mask: 0x00FF_0000, shift: 16 },
    FieldSpec { st: 1, idx: 2, name: "MCTPTransportHeader.source_endpoint_id", mask: 0x0000_FF00, shift: 8 },
    FieldSpec { st: 1, idx: 3, name: "MCTPTransportHeader.som", mask: 0x0000_0080, shift: 7 },
    FieldSpec { st: 1, idx: 4, name: "MCTPTransportHeader.eom", mask: 0x0000_0040, shift: 6 },
    FieldSpec { st: 1, idx: 5, name: "MCTPTransportHeader.pkt_seq", mask: 0x0000_0030, shift: 4 },
    FieldSpec { st: 1, idx: 6, name: "MCTPTransportHeader.to", mask: 0x0000_0008, shift: 3 },
    FieldSpec { st: 1, idx: 7, name: "MCTPTransportHeader.msg_tag", mask: 0x0000_0007, shift: 0 },
    // body header (1 byte, raw in low 8 bits)
    FieldSpec { st: 2, idx: 0, name: "MCTPMessageBodyHeader.msg_type", mask: 0x0000_007F, shift: 0 },
    // control header (2 bytes, raw in low 16 bits, big-endian)
    FieldSpec { st: 3, idx: 0, name: "MCTPControlMessageHeader.rq", mask: 0x0000_8000, shift: 15 },
    FieldSpec { st: 3, idx: 1, name: "MCTPControlMessageHeader.d", mask: 0x0000_4000, shift: 14 },
    FieldSpec { st: 3, idx: 2, name: "MCTPControlMessageHeader.instance_id", mask: 0x0000_1F00, shift: 8 },
    FieldSpec { st: 3, idx: 3, name: "MCTPControlMessageHeader.command_code", mask: 0x0000_00FF, shift: 0 },
    // routing entry
    FieldSpec { st: 4, idx: 0, name: "SMBusRoutingInformationUpdateEntry.entry_type", mask: 0x0F00_0000, shift: 24 },
    FieldSpec { st: 4, idx: 1, name: "SMBusRoutingInformationUpdateEntry.eid_range_size", mask: 0x00FF_0000, shift: 16 },
    FieldSpec { st: 4, idx: 2, name: "SMBusRoutingInformationUpdateEntry.first_eid", mask: 0x0000_FF00, shift: 8 },
    FieldSpec { st: 4, idx: 3, name: "SMBusRoutingInformationUpdateEntry.physical_address", mask: 0x0000_00FF, shift: 0 },
    // PCI (u16 argument) handled with IANA below; placeholder row for PCI:
    FieldSpec { st: 5, idx: 0, name: "PCIMessageFormat.vendor_id", mask: 0x0000_FFFF, shift: 0 },
];
const IANA_FIELD: FieldSpec = FieldSpec { st: 6, idx: 0, name: "IANAMessageFormat.vendor_id", mask: 0xFFFF_FFFF, shift: 0 };

/// Apply the library setter; returns (new raw, value read back through the getter).
/// Returns (raw bytes right after construction, raw bytes after the setter, getter result). The
/// from-bytes constructors may normalise bits no named field covers (benign/C18-k clears reserved
/// bits), so "a setter changes only its own bits" is judged against the view as constructed.
fn lib_set(f: &FieldSpec, raw: u32, v: u32) -> (u32, u32, u32) {
    let b = raw.to_be_bytes();
    let v8 = v as u8;
    match f.st {
        0 => {
            let mut h = MCTPSMBusHeader::new_from_buf(bb(b));
            let h0 = h.0;
            let g = match f.idx {
                0 => {
                    h.set_dest_read_write(bb(v8));
                    h.dest_read_write()
                }
                1 => {
                    h.set_dest_slave_addr(bb(v8));
                    h.dest_slave_addr()
                }
                2 => {
                    h.set_command_code(bb(v8));
                    h.command_code()
                }
                3 => {
                    h.set_byte_count(bb(v8));
                    h.byte_count()
                }
                4 => {
                    h.set_source_read_write(bb(v8));
                    h.source_read_write()
                }
                _ => {
                    h.set_source_slave_addr(bb(v8));
                    h.source_slave_addr()
                }
            };
            (u32::from_be_bytes(h0), u32::from_be_bytes(h.0), g as u32)
        }
        1 => {
            let mut h = MCTPTransportHeader(bb(b));
            let h0 = h.0;
            let g = match f.idx {
                0 => {
                    h.set_hdr_version(bb(v8));
                    h.hdr_version()
                }
                1 => {
                    h.set_dest_endpoint_id(bb(v8));
                    h.dest_endpoint_id()
                }
                2 => {
                    h.set_source_endpoint_id(bb(v8));
                    h.source_endpoint_id()
                }
                3 => {
                    h.set_som(bb(v8));
                    h.som()
                }
                4 => {
                    h.set_eom(bb(v8));
                    h.eom()
                }
                5 => {
                    h.set_pkt_seq(bb(v8));
                    h.pkt_seq()
                }
                6 => {
                    h.set_to(bb(v8));
                    h.to()
                }
                _ => {
                    h.set_msg_tag(bb(v8));
                    h.msg_tag()
                }
            };
            (u32::from_be_bytes(h0), u32::from_be_bytes(h.0), g as u32)
        }
        2 => {
            let mut h = MCTPMessageBodyHeader(bb([raw as u8]));
            let h0 = h.0;
            h.set_msg_type(bb(v8));
            (h0[0] as u32, h.0[0] as u32, h.msg_type() as u32)
        }
        3 => {
            let mut h = MCTPControlMessageHeader::new_from_buf(bb([(raw >> 8) as u8, raw as u8]));
            let h0 = h.0;
            let g = match f.idx {
                0 => {
                    h.set_rq(bb(v8));
                    h.rq()
                }
                1 => {
                    h.set_d(bb(v8));
                    h.d()
                }
                2 => {
                    h.set_instance_id(bb(v8));
                    h.instance_id()
                }
                _ => {
                    h.set_command_code(bb(v8));
                    h.command_code()
                }
            };
            (((h0[0] as u32) << 8) | h0[1] as u32, ((h.0[0] as u32) << 8) | h.0[1] as u32, g as u32)
        }
        4 => {
            let mut h = SMBusRoutingInformationUpdateEntry::new_from_buf(bb(b));
            let h0 = h.0;
            let g = match f.idx {
                0 => {
                    h.set_entry_type(bb(v8));
                    h.entry_type()
                }
                1 => {
                    h.set_eid_range_size(bb(v8));
                    h.eid_range_size()
                }
                2 => {
                    h.set_first_eid(bb(v8));
                    h.first_eid()
                }
                _ => {
                    h.set_physical_address(bb(v8));
                    h.physical_address()
                }
            };
            (u32::from_be_bytes(h0), u32::from_be_bytes(h.0), g as u32)
        }
        5 => {
            let mut h = PCIMessageFormat::new_from_buf(bb([(raw >> 8) as u8, raw as u8]));
            let h0 = h.0;
            h.set_vendor_id(bb(v as u16));
            (((h0[0] as u32) << 8) | h0[1] as u32, ((h.0[0] as u32) << 8) | h.0[1] as u32, h.vendor_id() as u32)
        }
        _ => {
            let mut h = IANAMessageFormat::new_from_buf(bb(b));
            let h0 = h.0;
            h.set_vendor_id(bb(v));
            (u32::from_be_bytes(h0), u32::from_be_bytes(h.0), h.vendor_id())
        }
    }
}

fn raw_width_mask(st: u8) -> u32 {
    match st {
        2 => 0xFF,
        3 | 5 => 0xFFFF,
        _ => 0xFFFF_FFFF,
    }
}

pub fn check_setter(f: &FieldSpec, raw: u32, v: u32, rep: &mut Report) {
    let raw = raw & raw_width_mask(f.st);
    rep.eval();
    match trap(|| lib_set(f, raw, v)) {
        Err(p) => rep.violation(&format!("{}:setter-panic", f.name), || format!("set_{}({:#x}) on raw {:#x} panicked: {}", f.name, v, raw, p.long()), || format!("set;{};{};{:x};{:x}", f.st, f.idx, raw, v)),
        Ok((built_raw, new_raw, got)) => {
            // the named fields of the freshly built view must read the raw bytes (that is the getter
            // property, checked by check_getter); here: the setter changes exactly its own bits of
            // the view as built
            let raw = built_raw;
            let want_raw = (raw & !f.mask) | ((v << f.shift) & f.mask);
            let want_get = (want_raw & f.mask) >> f.shift;
            if new_raw != want_raw {
                let what = if (new_raw & !f.mask) != (raw & !f.mask) { "setter-clobbers-other-bits" } else { "setter-stores-wrong-value" };
                rep.violation(
                    &format!("{}:{}", f.name, what),
                    || format!("{} setter with value {:#x} on raw {:#010x} gave raw {:#010x}, expected {:#010x} (field mask {:#010x})", f.name, v, raw, new_raw, want_raw, f.mask),
                    || format!("set;{};{};{:x};{:x}", f.st, f.idx, raw, v),
                );
            } else if got != want_get {
                rep.violation(
                    &format!("{}:read-after-write", f.name),
                    || format!("{} read after writing {:#x} returned {:#x}, expected {:#x}", f.name, v, got, want_get),
                    || format!("set;{};{};{:x};{:x}", f.st, f.idx, raw, v),
                );
            }
        }
    }
}

fn check_getters(st: u8, raw: u32, rep: &mut Report) {
    if let Some(d) = getters_bad(st, raw) {
        rep.violation(&format!("{}:getter", STRUCT_NAMES[st as usize]), || d, || format!("get;{};{:x}", st, raw));
    }
}

fn transport_valid_bad(raw: u32, version: u8) -> Option<String> {
    let b = raw.to_be_bytes();
    let want = (b[0] >> 4) == 0 && (b[0] & 0x0F) == version;
    let got = MCTPTransportHeader::new_from_buf(bb(b), bb(version)).is_ok();
    if bb(got) != want {
        return Some(format!("MCTPTransportHeader::new_from_buf({:02x?}, version {}) is_ok = {}, expected {}", b, version, got, want));
    }
    None
}

fn body_valid_bad(v: u8) -> Option<String> {
    let want = v & 0x80 == 0 && SUPPORTED.contains(&(v & 0x7F));
    let got = MCTPMessageBodyHeader::new_from_buf(bb([v])).is_ok();
    if got != want {
        return Some(format!("MCTPMessageBodyHeader::new_from_buf([{:#04x}]) is_ok = {}, expected {}", v, got, want));
    }
    None
}

const VERSIONS: [u8; 8] = [0, 1, 2, 7, 15, 16, 17, 255];

/// Run a range of 32-bit raw values through the 32-bit getters and the transport validator.
fn sweep32(vals: impl Iterator<Item = u32>, rep: &mut Report, sample_every: u32) {
    let mut n = 0u64;
    for raw in vals {
        for st in [0u8, 1, 4, 6] {
            if let Some(d) = getters_bad(st, raw) {
                rep.violation(&format!("{}:getter", STRUCT_NAMES[st as usize]), || d, || format!("get;{};{:x}", st, raw));
            }
        }
        // the validator depends on byte 0 only if correct; check with two versions per value and
        // all versions on a subsample
        if let Some(d) = transport_valid_bad(raw, 1) {
            rep.violation("MCTPTransportHeader:new_from_buf", || d, || format!("tv;{:x};1", raw));
        }
        let v2 = VERSIONS[(raw as usize ^ (raw >> 13) as usize) & 7];
        if let Some(d) = transport_valid_bad(raw, v2) {
            rep.violation("MCTPTransportHeader:new_from_buf", || d, || format!("tv;{:x};{}", raw, v2));
        }
        n += 1;
        if raw % sample_every == 0 {
            rep.nontrivial(raw as u64 | (1 << 40));
        }
    }
    rep.evals(n * 6);
    rep.class_n("raw32-values", n);
}

fn run(cfg: &RunCfg) -> Report {
    let mut rep = Report::new();
    let ns = cfg.nshards as u64;
    let sh = cfg.shard as u64;
    let mut rng = cfg.rng("c18");
    let r = trap(|| {
        let mut rep = Report::new();
        // 8- and 16-bit spaces: exhaustive in every tier (shard 0..: split 16-bit by shard)
        if sh == 0 {
            for v in 0..=255u32 {
                check_getters(2, v, &mut rep);
                rep.nontrivial(v as u64 | (2 << 40));
                if let Some(d) = body_valid_bad(v as u8) {
                    rep.violation("MCTPMessageBodyHeader:new_from_buf", || d, || format!("bv;{:x}", v));
                }
                rep.evals(2);
            }
            rep.class_n("raw8-values", 256);
        }
        let mut n16 = 0u64;
        for v in 0..=0xFFFFu32 {
            if v as u64 % ns == sh {
                check_getters(3, v, &mut rep);
                check_getters(5, v, &mut rep);
                rep.evals(2);
                n16 += 1;
                if v % 16 == 0 {
                    rep.nontrivial(v as u64 | (3 << 40));
                }
            }
        }
        rep.class_n("raw16-values", n16);
        // 32-bit spaces
        if cfg.is_small() {
            let vals: Vec<u32> = (0..2000).map(|_| rng.next() as u32).collect();
            sweep32(vals.into_iter(), &mut rep, 1);
        } else if cfg.thorough() {
            let per = (1u64 << 32) / ns;
            let lo = per * sh;
            let hi = if sh == ns - 1 { 1u64 << 32 } else { lo + per };
            sweep32((lo..hi).map(|v| v as u32), &mut rep, 1 << 14);
            rep.class_n("raw32-full-sweep", hi - lo);
        } else {
            // stratified 2^24 sample: every value of the top 12 bits x every value of the low 12
            // bits (all four bytes see all 256 values, every nibble pair of bytes 0/3), middle byte random
            let per = (1u64 << 24) / ns;
            let lo = per * sh;
            let hi = lo + per;
            let mut salt = rng.next() as u32;
            sweep32(
                (lo..hi).map(|i| {
                    let i = i as u32;
                    if i & 0xFFF == 0 {
                        salt = salt.wrapping_mul(0x9E37_79B1).wrapping_add(0x7F4A_7C15);
                    }
                    let top = (i >> 12) & 0xFFF; // bits 31..20
                    let low = i & 0xFFF; // bits 11..0
                    (top << 20) | ((salt ^ i.wrapping_mul(0x85EB_CA6B)) & 0x000F_F000) | low
                }),
                &mut rep,
                1 << 8,
            );
            // walking ones / zeros and boundaries
            let mut pats: Vec<u32> = vec![0, 0xFFFF_FFFF, 0x8000_0000, 0x7FFF_FFFF, 0x0000_FFFF, 0xFFFF_0000];
            for i in 0..32 {
                pats.push(1 << i);
                pats.push(!(1u32 << i));
            }
            if sh == 0 {
                sweep32(pats.into_iter(), &mut rep, 1);
            }
        }
        // validators: all 2^8 first bytes x all versions x random remaining bytes
        let mut nv = 0u64;
        for b0 in 0..=255u32 {
            if b0 as u64 % ns != sh {
                continue;
            }
            for ver in 0..=255u8 {
                for _ in 0..cfg.pick(2, 16) {
                    let raw = (b0 << 24) | (rng.next() as u32 & 0x00FF_FFFF);
                    if let Some(d) = transport_valid_bad(raw, ver) {
                        rep.violation("MCTPTransportHeader:new_from_buf", || d, || format!("tv;{:x};{}", raw, ver));
                    }
                    nv += 1;
                }
            }
            rep.nontrivial(b0 as u64 | (7 << 40));
        }
        rep.evals(nv);
        rep.class_n("transport-validator-cases", nv);
        // setters
        let raws_fixed: Vec<u32> = {
            let mut v = vec![0u32, 0xFFFF_FFFF, 0xAAAA_AAAA, 0x5555_5555];
            for i in 0..32 {
                v.push(1 << i);
                v.push(!(1u32 << i));
            }
            v
        };
        let n_rand = if cfg.is_small() { 2 } else { cfg.pick(64, 4096) as usize };
        let mut nset = 0u64;
        let mut item = 0u64;
        for f in FIELDS.iter().chain(std::iter::once(&IANA_FIELD)) {
            let vals: Vec<u32> = match f.st {
                5 => (0..=0xFFFFu32).collect(),
                6 => {
                    let mut v: Vec<u32> = vec![0, 1, 0xFF, 0x100, 0xFFFF, 0x1_0000, 0xFF_FFFF, 0x100_0000, 0x7FFF_FFFF, 0x8000_0000, 0xFFFF_FFFF];
                    for i in 0..32 {
                        v.push(1 << i);
                    }
                    for _ in 0..cfg.pick(1 << 14, 1 << 20) {
                        v.push(rng.next() as u32);
                    }
                    v
                }
                _ => (0..=255u32).collect(),
            };
            let stride = if f.st >= 5 && !cfg.thorough() { 8 } else { 1 };
            for (vi, &v) in vals.iter().enumerate() {
                item += 1;
                if item % ns != sh {
                    continue;
                }
                // u16/u32 value spaces: fewer raw buffers per value
                let nr = if f.st >= 5 { (n_rand / 16).max(2) } else { n_rand };
                if f.st < 5 || vi % stride == (item as usize / 7) % stride || vi < 1024 {
                    for &raw in &raws_fixed {
                        check_setter(f, raw, v, &mut rep);
                        nset += 1;
                    }
                }
                for _ in 0..nr {
                    let raw = rng.next() as u32;
                    check_setter(f, raw, v, &mut rep);
                    nset += 1;
                }
                rep.nontrivial(((f.st as u64) << 48) | ((f.idx as u64) << 40) | v as u64);
            }
        }
        rep.class_n("setter-cases", nset);
        // exhaustive raw x value for the <=16-bit headers' u8 setters (thorough): control header
        if cfg.thorough() && !cfg.is_small() {
            let mut n = 0u64;
            for f in FIELDS.iter().filter(|f| f.st == 3 || f.st == 2) {
                for raw in 0..=0xFFFFu32 {
                    if raw as u64 % ns != sh {
                        continue;
                    }
                    if f.st == 2 && raw > 0xFF {
                        break;
                    }
                    for v in 0..=255u32 {
                        check_setter(f, raw, v, &mut rep);
                        n += 1;
                    }
                }
            }
            rep.class_n("setter-cases-exhaustive-16bit", n);
        }
        rep
    });
    match r {
        Ok(r) => rep.merge(r),
        Err(p) => rep.violation("header-view:panic", || format!("a header view panicked: {}", p.long()), || "panic".into()),
    }
    if sh == 0 {
        let raw = 0x460F_0A69u32;
        let b = raw.to_be_bytes();
        let h = MCTPSMBusHeader::new_from_buf(b);
        rep.sample(|| J::s(format!("MCTPSMBusHeader({:02x?}): dest_slave_addr={:#x} command_code={:#x} byte_count={} source_slave_addr={:#x} source_read_write={}", b, h.dest_slave_addr(), h.command_code(), h.byte_count(), h.source_slave_addr(), h.source_read_write())));
        let t = MCTPTransportHeader([0x01, 0x23, 0x34, 0xC8]);
        rep.sample(|| J::s(format!("MCTPTransportHeader([01,23,34,c8]): ver={} dst={:#x} src={:#x} som={} eom={} seq={} to={} tag={}", t.hdr_version(), t.dest_endpoint_id(), t.source_endpoint_id(), t.som(), t.eom(), t.pkt_seq(), t.to(), t.msg_tag())));
        let (_, nr, g) = lib_set(&FIELDS[17], 0xFFFF, 0x2A);
        rep.sample(|| J::s(format!("MCTPControlMessageHeader raw 0xffff, set_instance_id(0x2a) -> raw {:#06x}, instance_id() = {:#x}", nr, g)));
    }
    let _ = Rng::new(0);
    rep
}

fn finish(rep: &mut Report, cfg: &RunCfg) {
    if cfg.is_small() {
        return;
    }
    let c = |k: &str| rep.classes.get(k).copied().unwrap_or(0);
    if c("raw8-values") == 256 {
        rep.exhaustive_spaces.push("all 2^8 message-body header values (getter + validator)".into());
    } else {
        rep.inconclusive.push("8-bit sweep incomplete".into());
    }
    if c("raw16-values") == 65_536 {
        rep.exhaustive_spaces.push("all 2^16 control-header and PCI-header values (getters)".into());
    } else {
        rep.inconclusive.push("16-bit sweep incomplete".into());
    }
    if cfg.thorough() {
        if c("raw32-full-sweep") == 1u64 << 32 {
            rep.exhaustive_spaces.push("all 2^32 values of the SMBus header, transport header, routing entry and IANA header (getters; transport validator with version 1 and a second version)".into());
        } else {
            rep.inconclusive.push("32-bit sweep incomplete".into());
        }
    }
    floor(rep, cfg, 20_000);
}

fn replay(case: &str, rep: &mut Report) -> Result<(), String> {
    let parts: Vec<&str> = case.split(';').collect();
    let hx = |s: &str| u32::from_str_radix(s, 16).map_err(|_| "bad hex".to_string());
    match parts.as_slice() {
        ["get", st, raw] => {
            check_getters(st.parse().map_err(|_| "bad st")?, hx(raw)?, rep);
            rep.eval();
        }
        ["set", st, idx, raw, v] => {
            let st: u8 = st.parse().map_err(|_| "bad st")?;
            let idx: u8 = idx.parse().map_err(|_| "bad idx")?;
            let f = FIELDS.iter().chain(std::iter::once(&IANA_FIELD)).find(|f| f.st == st && f.idx == idx).ok_or("no such field")?;
            check_setter(f, hx(raw)?, hx(v)?, rep);
        }
        ["tv", raw, ver] => {
            rep.eval();
            if let Some(d) = transport_valid_bad(hx(raw)?, ver.parse().map_err(|_| "bad ver")?) {
                rep.violation("MCTPTransportHeader:new_from_buf", || d, || case.to_string());
            }
        }
        ["bv", v] => {
            rep.eval();
            if let Some(d) = body_valid_bad(hx(v)? as u8) {
                rep.violation("MCTPMessageBodyHeader:new_from_buf", || d, || case.to_string());
            }
        }
        _ => return Err("cannot parse case".into()),
    }
    Ok(())
}
