#!/usr/bin/env bash
# MANIFEST.setup_cmd: offline build of the harness in both profiles, from files on disk only.
set -eu
VERIF="$(cd "$(dirname "${BASH_SOURCE[0]}")" && pwd)"
export CARGO_NET_OFFLINE=true
cd "$VERIF/harness"
cargo build --offline --quiet --profile chk
cargo build --offline --quiet --profile rel
mkdir -p "$VERIF/evidence" "$VERIF/replays"
echo "setup ok: $("$VERIF/harness/target/chk/mctpmon" list | wc -l) monitors built"
