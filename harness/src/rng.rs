//! Deterministic PRNG (splitmix64 seeding, xoshiro256**). All randomness in the harness comes from
//! VERIF_SEED through this file; shard k of a run uses mix(seed, k).

#[derive(Clone)]
pub struct Rng {
    s: [u64; 4],
}

pub fn splitmix(x: &mut u64) -> u64 {
    *x = x.wrapping_add(0x9E37_79B9_7F4A_7C15);
    let mut z = *x;
    z = (z ^ (z >> 30)).wrapping_mul(0xBF58_476D_1CE4_E5B9);
    z = (z ^ (z >> 27)).wrapping_mul(0x94D0_49BB_1331_11EB);
    z ^ (z >> 31)
}

/// Mix two words into one (used to derive shard / case seeds).
pub fn mix(a: u64, b: u64) -> u64 {
    let mut x = a ^ b.wrapping_mul(0xD6E8_FEB8_6659_FD93).rotate_left(23);
    let r = splitmix(&mut x);
    r ^ splitmix(&mut x)
}

impl Rng {
    pub fn new(seed: u64) -> Self {
        let mut x = seed ^ 0x6A09_E667_F3BC_C909;
        let s = [splitmix(&mut x), splitmix(&mut x), splitmix(&mut x), splitmix(&mut x)];
        Rng { s }
    }
    #[inline]
    pub fn next(&mut self) -> u64 {
        let r = self.s[1].wrapping_mul(5).rotate_left(7).wrapping_mul(9);
        let t = self.s[1] << 17;
        self.s[2] ^= self.s[0];
        self.s[3] ^= self.s[1];
        self.s[1] ^= self.s[2];
        self.s[0] ^= self.s[3];
        self.s[2] ^= t;
        self.s[3] = self.s[3].rotate_left(45);
        r
    }
    /// Uniform in 0..n (n > 0).
    #[inline]
    pub fn below(&mut self, n: u64) -> u64 {
        ((self.next() as u128 * n as u128) >> 64) as u64
    }
    #[inline]
    pub fn range(&mut self, lo: u64, hi_incl: u64) -> u64 {
        lo + self.below(hi_incl - lo + 1)
    }
    #[inline]
    pub fn byte(&mut self) -> u8 {
        (self.next() >> 32) as u8
    }
    #[inline]
    pub fn chance(&mut self, num: u64, den: u64) -> bool {
        self.below(den) < num
    }
    pub fn fill(&mut self, buf: &mut [u8]) {
        for c in buf.chunks_mut(8) {
            let v = self.next().to_le_bytes();
            c.copy_from_slice(&v[..c.len()]);
        }
    }
    pub fn bytes(&mut self, n: usize) -> Vec<u8> {
        let mut v = vec![0u8; n];
        self.fill(&mut v);
        v
    }
    /// Bytes with structure: random, constant fill, counting up/down, a short repeating pattern.
    /// Arguments "of arbitrary content" include highly regular content, which uniform noise never is.
    pub fn pattern_bytes(&mut self, n: usize) -> Vec<u8> {
        match self.below(8) {
            0 => vec![*self.pick(&[0x00u8, 0xFF, 0x01, 0x80, 0x7F, 0x0F]); n],
            1 => {
                let start = self.byte();
                (0..n).map(|i| start.wrapping_add(i as u8)).collect()
            }
            2 => {
                let start = self.byte();
                (0..n).map(|i| start.wrapping_sub(i as u8)).collect()
            }
            3 => {
                let k = 1 + self.below(4) as usize;
                let pat = self.bytes(k);
                (0..n).map(|i| pat[i % k]).collect()
            }
            _ => self.bytes(n),
        }
    }
    pub fn pick<'a, T>(&mut self, xs: &'a [T]) -> &'a T {
        &xs[self.below(xs.len() as u64) as usize]
    }
    /// A byte biased towards boundary values.
    pub fn edgy_byte(&mut self) -> u8 {
        match self.below(8) {
            0 => *self.pick(&[0x00, 0x01, 0x02, 0x7E, 0x7F, 0x80, 0xFE, 0xFF]),
            _ => self.byte(),
        }
    }
}

/// FNV-1a style 64-bit hash of bytes, finalised with splitmix (case keys for "distinct" counting).
pub fn hash_bytes(seed: u64, b: &[u8]) -> u64 {
    let mut h = 0xCBF2_9CE4_8422_2325u64 ^ seed;
    for &x in b {
        h ^= x as u64;
        h = h.wrapping_mul(0x0000_0100_0000_01B3);
    }
    let mut x = h;
    splitmix(&mut x)
}
