//! C04 — SMBus framing, byte count, reported length, length probe, refusal of oversize messages.

use super::enc_common::*;
use super::*;
use crate::catalog::*;
use crate::encwl::*;
use crate::libapi::{get_length, CtxCfg, LenOut};
use crate::rng::hash_bytes;
use libmctp::smbus::MCTPSMBusContext;

pub fn mon() -> Mon {
    Mon {
        id: "C04",
        title: "SMBus framing, byte count and reported length of encoded packets agree",
        run,
        finish,
        replay,
        rule: "Encoder catalogue with 7-bit addresses (plus the responses process_packet encodes: write bit, command code, byte count, source address, length probe): all 128x128 (own, destination) pairs on every call form, every small parameter value, body sizes 0..300 and selected sizes up to 600 on the nine variable-body forms, random products. Each Ok(n) output is checked literally: b0 == dst<<1, b1 == 0x0F, b2 == n-4, b3 == src<<1|1, n == b2+4, and get_length (on a context with a different address) on prefixes of >= 3 bytes returns Ok(n); every call whose frame would need a byte count > 255 must return Err. Non-trivial = an output packet was judged or an oversize call was judged; distinct = distinct (form, output bytes) / (form, oversize length).",
        assumptions: &[
            "own and destination addresses are 7-bit (the property's quantifier); 8-bit values are exercised by C05 only",
            "a panic on an oversize or boundary-size message is recorded here but judged by C16 (no panic), not C04",
            "chk build (overflow checks on) and rel build (off) are both run because the outcome for total lengths 256-259 differs",
        ],
        children: rel_child,
    }
}

fn plan(cfg: &RunCfg) -> EncPlan {
    let mut p = EncPlan::new(&ALL_FORMS);
    p.len_max = 300;
    p.len_reps = cfg.pick(4, 40) as u32;
    p.extra_lens = vec![301, 320, 400, 505, 506, 507, 508, 509, 510, 511, 512, 513, 514, 515, 516, 517, 518, 519, 520, 600];
    p.max_body = 270;
    p.random_per_form = cfg.pick(10_000, 1_000_000);
    p.param_sweep_reps = cfg.pick(1, 10) as u32;
    p.addr_sweep_reps = cfg.pick(1, 10) as u32;
    p.pair_forms = ALL_FORMS.to_vec();
    if cfg.part == "rel" {
        p.random_per_form = cfg.pick(500, 50_000);
        p.pair_forms = vec![Form::GetUuid, Form::RGetEid, Form::GenIanaReq];
        p.len_reps = cfg.pick(1, 10) as u32;
    }
    if cfg.is_small() {
        p.pair_forms.clear();
        p.len_max = 0;
    }
    p
}

pub fn check(c: &Call, probe: &MCTPSMBusContext, rep: &mut Report) {
    let exp = expected(c);
    let obs = observe(c, 0xC04);
    rep.eval();
    let form = c.form.name();
    if exp.outcome == Outcome::TooBig {
        rep.nontrivial(hash_bytes(c.form as u64 + 0x400, &(exp.body.len() as u32).to_le_bytes()));
        match &obs.res {
            Ok(Err(())) => rep.class("oversize:refused"),
            Ok(Ok(n)) => {
                rep.class("oversize:encoded");
                let n = *n;
                let b2 = obs.buf[2];
                rep.violation(
                    &format!("{}:oversize-encoded", form),
                    || {
                        format!(
                            "message needing byte count {} (> 255) was encoded: returned Ok({}), byte count field {:#04x}",
                            exp.body.len() + 6,
                            n,
                            b2
                        )
                    },
                    || c.encode(),
                );
            }
            Err(p) => rep.class(&format!("oversize:panic:{}", p.short())),
        }
        return;
    }
    let pkt = match note_outcome(rep, c, &obs) {
        Some(p) => p,
        None => {
            // the encoder reported success with a length that cannot be a packet's (below the 10
            // bytes of framing or beyond the buffer): "the returned length equals byte count + 4"
            // is about exactly this value (seeded C04-l: the sum computed in u8 wraps to 0..3 when
            // overflow checks are off)
            if let Ok(Ok(n)) = &obs.res {
                let n = *n;
                let bc = obs.buf.get(2).copied().unwrap_or(0);
                rep.violation(
                    &format!("{}:returned-length-not-a-packet-length", form),
                    || format!("encoder returned Ok({}) for a message that fits the frame; the byte count field it wrote is {} (packet length {})", n, bc, bc as usize + 4),
                    || c.encode(),
                );
            }
            return;
        }
    };
    let n = pkt.len();
    rep.class(len_bucket(n));
    rep.nontrivial(hash_bytes(c.form as u64, pkt));
    let mut probe_evals = 0u64;
    let mut bad = |what: &str, detail: String| {
        rep.violation(&format!("{}:{}", form, what), || format!("{}; {}", detail, obs.brief()), || c.encode());
    };
    if pkt[0] != (c.dest << 1) {
        bad("b0-dest-addr", format!("byte 0 {:#04x} != dest<<1 {:#04x}", pkt[0], c.dest << 1));
    }
    if pkt[1] != 0x0F {
        bad("b1-command-code", format!("byte 1 {:#04x} != 0x0F", pkt[1]));
    }
    if pkt[2] as usize != n - 4 {
        bad("b2-byte-count", format!("byte count {} != n-4 = {}", pkt[2], n - 4));
    }
    if pkt[3] != ((c.own << 1) | 1) {
        bad("b3-source-addr", format!("byte 3 {:#04x} != src<<1|1 {:#04x}", pkt[3], (c.own << 1) | 1));
    }
    // length probe on prefixes of >= 3 bytes
    let mut ks: Vec<usize> = if n <= 24 { (3..=n).collect() } else { vec![3, 4, 5, 9, n / 2, n - 1, n] };
    ks.dedup();
    for k in ks {
        let got = get_length(probe, &pkt[..k]);
        probe_evals += 1;
        if got != LenOut::Ok(n) {
            bad("length-probe", format!("get_length(prefix of {} bytes) = {} but the encoder reported {}", k, got.brief(), n));
            break;
        }
    }
    // the probe must not depend on who asks: contexts that ARE the packet's source / destination
    // (address and both EID cells taken from the packet) must answer the same
    {
        use libmctp::mctp_traits::SMBusMCTPRequestResponse;
        for (addr, eid) in [(pkt[3] >> 1, pkt[6]), (pkt[0] >> 1, pkt[5]), (pkt[3] >> 1, pkt[3] >> 1)] {
            let cc = CtxCfg::simple(addr);
            let got = crate::libapi::with_ctx(&cc, |c| {
                c.get_request().set_eid(eid);
                c.get_response().set_eid(eid);
                get_length(c, pkt)
            });
            probe_evals += 1;
            if got != LenOut::Ok(n) {
                bad("length-probe", format!("get_length(whole packet) on a context with address {:#04x} and EID {:#04x} = {} but the encoder reported {}", addr, eid, got.brief(), n));
                break;
            }
        }
    }
    rep.evals(probe_evals);
    if rep.want_sample() {
        rep.sample(|| sample_json(c, &obs));
    }
}

fn run(cfg: &RunCfg) -> Report {
    let mut rep = Report::new();
    let p = plan(cfg);
    let pc = CtxCfg::simple(0x5A);
    crate::libapi::with_ctx(&pc, |probe| {
        for_each_call(cfg, "c04", &p, &mut |c, _| check(c, probe, &mut rep));
        let n = if cfg.is_small() { 200 } else { cfg.pick(200_000, 4_000_000) };
        let mut rrep = Report::new();
        for_each_response(cfg, "c04-responder", n, &mut |req, resp, who, rep| check_response(req, resp, who, probe, rep), &mut rrep);
        rep.merge(rrep);
    });
    rep
}

/// Framing of the packets process_packet encodes (which requester they go to is C12's).
pub fn check_response(req: &[u8], resp: &[u8], who: &CtxCfg, probe: &MCTPSMBusContext, rep: &mut Report) {
    rep.eval();
    let n = resp.len();
    rep.class("responder:response");
    rep.nontrivial(hash_bytes(0x44, resp));
    let mut bad = |what: &str, detail: String| {
        rep.violation(
            &format!("process_packet-response:{}", what),
            || format!("{}; request {} -> response {} (responder {:#04x})", detail, crate::json::hex(req), crate::json::hex(resp), who.addr),
            || format!("resp|{}|{}", who.encode(), crate::json::hex(req)),
        );
    };
    // that the destination IS the requester is C12's claim; here only the write bit
    if resp[0] & 1 != 0 {
        bad("b0-write-bit", format!("byte 0 {:#04x}: the write bit is not clear", resp[0]));
    }
    if resp[1] != 0x0F {
        bad("b1-command-code", format!("byte 1 {:#04x} != 0x0F", resp[1]));
    }
    if resp[2] as usize != n - 4 {
        bad("b2-byte-count", format!("byte count {} != n-4 = {}", resp[2], n - 4));
    }
    if resp[3] != ((who.addr << 1) | 1) {
        bad("b3-source-addr", format!("byte 3 {:#04x} != own address<<1|1 {:#04x}", resp[3], (who.addr << 1) | 1));
    }
    for k in [3usize, 4, n / 2, n] {
        if get_length(probe, &resp[..k]) != LenOut::Ok(n) {
            bad("length-probe", format!("get_length(prefix of {} bytes) != reported length {}", k, n));
            break;
        }
    }
}

fn finish(rep: &mut Report, cfg: &RunCfg) {
    floor(rep, cfg, 50_000);
    if !cfg.is_small() {
        let judged: u64 = rep.classes.iter().filter(|(k, _)| k.starts_with("oversize:")).map(|(_, v)| *v).sum();
        if judged == 0 {
            rep.inconclusive.push("no oversize message was generated".into());
        }
    }
}

fn replay(case: &str, rep: &mut Report) -> Result<(), String> {
    if let Some(rest) = case.strip_prefix("resp|") {
        let pc = CtxCfg::simple(0x5A);
        return crate::libapi::with_ctx(&pc, |probe| replay_response(rest, rep, &mut |q, r, w, rep| check_response(q, r, w, probe, rep)));
    }
    let c = Call::decode(case).ok_or("cannot parse case")?;
    let pc = CtxCfg::simple(0x5A);
    crate::libapi::with_ctx(&pc, |probe| check(&c, probe, rep));
    Ok(())
}
