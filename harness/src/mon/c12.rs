//! C12 — responses are well-formed and correlate with the request they answer.

use super::hist::*;
use super::*;
use crate::json::{hex, unhex, J};
use crate::libapi::*;
use crate::refmodel::crc::crc8;
use crate::refmodel::endpoint::*;
use crate::refmodel::forge::ctrl_request;
use crate::refmodel::refdec::{decide, RefOut};
use crate::rng::{hash_bytes, Rng};

pub fn mon() -> Mon {
    Mon {
        id: "C12",
        title: "Responses are well-formed and correlate with the request they answer",
        run,
        finish,
        replay,
        rule: "Forged control requests for the 7 answerable command forms (Set Endpoint ID operations 0/1/3 with EID 0x01-0xFE, Get Endpoint ID, UUID, Version with every query byte, Message Types, Vendor selector < n) plus requests for unsupported commands and out-of-range operations/selectors, with requester address 0-127 (source EID = source address), responder address 0-127 (all 128x128 pairs per command form), every instance ID 0-31, one request in three with foreign transport flags (every message tag 0-7, tag owner, SOM/EOM/sequence), destination EID, datagram or reserved bit and a recomputed PEC, on contexts with random valid configurations and random prior histories; one request in three is *retried* (processed two or three times, the last response judged). Every generated response is checked field by field against the REQUEST bytes: byte count == len-4, reported length, command code 0x0F, destination address == request source address with the write bit clear, source address == own address with bit 0 set, header version 1, destination EID == request source EID, source EID == own address, SOM/EOM/seq 1/1/0, control type, request bit clear, same command code, same instance ID, a completion-code byte, and an independently computed PEC. Whether a request is answered at all is not judged here (C13-C15 do, for their commands); a command form for which no response was ever observed makes the run inconclusive. Non-trivial = a response was judged; distinct = distinct (request, responder) hashes.",
        assumptions: &[
            "requests whose SMBus source address and source endpoint ID name different requesters, and EIDs 0x00/0xFF in Set Endpoint ID, are outside the quantifier and not generated",
            "tag-owner/tag bits and the datagram/reserved bits of the response are not constrained by the statement",
        ],
        children: rel_child_quarter,
    }
}

const PRELUDE: [(Letter, u32); 8] = [
    (Letter::SetEid, 4),
    (Letter::GetEid, 2),
    (Letter::Query, 4),
    (Letter::ResponsePacket, 2),
    (Letter::Corrupted, 2),
    (Letter::Accessor, 1),
    (Letter::SetUuid, 1),
    (Letter::Garbage, 2),
];

/// `must_answer`: the request is one of the 7 answerable forms.
pub fn check(cfgc: &CtxCfg, prelude_seed: u64, prelude_len: usize, req: &[u8], rep: &mut Report) {
    rep.eval();
    let case = || format!("{}|{:x}|{}|{}", cfgc.encode(), prelude_seed, prelude_len, hex(req));
    // only accepted control requests are in scope
    let accepted_req = matches!(decide(req), RefOut::Accept { ty: 0, .. }) && req[9] & 0x80 != 0;
    if !accepted_req {
        rep.class("not-an-accepted-request:skipped");
        return;
    }
    let cmd = req[10];
    let n_sets = cfgc.vendors.len();
    let must_answer = match cmd {
        0x01 => matches!(req[11], 0 | 1 | 3) && req[12] != 0 && req[12] != 0xFF,
        0x02..=0x05 => true,
        0x06 => (req[11] as usize) < n_sets,
        _ => false,
    };
    let mut m = Model::new(cfgc);
    let mut prng = Rng::new(prelude_seed);
    with_contexts(std::slice::from_ref(cfgc), |ctxs| {
        let ctx = &mut ctxs[0];
        for _ in 0..prelude_len {
            let l = pick_letter(&mut prng, &PRELUDE);
            let op = instantiate(l, &mut prng, &m);
            m.apply_non_packet(&op);
            exec(ctx, &op, 80, 7);
        }
        // a request that asks about THIS endpoint's identity: "uuid:<cmd>" requests are completed here
        // with the UUID the prelude installed
        let req_owned: Vec<u8>;
        let req: &[u8] = if req.len() == 12 + 17 && req[10] == 0x10 && req[11..27] == [0xEE; 16] {
            // make sure there is an identity to ask about: a UUID (if the prelude installed none) and,
            // most of the time, an assigned EID
            if m.uuid == [0u8; 16] {
                let mut u = [0u8; 16];
                prng.fill(&mut u);
                let op = Op::SetUuid(u);
                m.apply_non_packet(&op);
                exec(ctx, &op, 80, 7);
            }
            if prng.chance(3, 4) {
                let op = instantiate(Letter::SetEid, &mut prng, &m);
                exec(ctx, &op, 80, 7);
            }
            let mut r = req.to_vec();
            r[11..27].copy_from_slice(&m.uuid);
            crate::refmodel::forge::fix_pec(&mut r);
            req_owned = r;
            &req_owned
        } else {
            req
        };
        let mut obs = exec(ctx, &Op::Process(req.to_vec()), rb_len(prelude_seed), prelude_seed ^ 0xC12);
        // a retry: one time in three the byte-identical request is processed a second (and third)
        // time and the LAST response is the one judged
        let retries = match prelude_seed % 6 {
            0 => 1,
            1 => 2,
            _ => 0,
        };
        for k in 0..retries {
            if obs.resp.is_none() {
                break;
            }
            rep.class("retried-request");
            obs = exec(ctx, &Op::Process(req.to_vec()), rb_len(prelude_seed.rotate_left(7 + k)), prelude_seed ^ 0xC12 ^ (k as u64 + 1));
        }
        let r = match &obs.resp {
            Some(r) => r.clone(),
            None => {
                rep.class(&format!("cmd-{:#04x}:no-response", cmd));
                // whether a request is answered at all is not C12's claim (C13/C14/C15 own that for
                // their commands); it is recorded, and a form that is never answered makes the
                // run inconclusive (finish)
                if must_answer {
                    rep.class("answerable-request-not-answered");
                }
                return;
            }
        };
        rep.class(&format!("cmd-{}:responded", if cmd <= 0x14 { format!("{:#04x}", cmd) } else { "unknown".into() }));
        let mut k = req.to_vec();
        k.push(cfgc.addr);
        rep.nontrivial(hash_bytes(12, &k));
        let len = r.len();
        let own = cfgc.addr;
        let mut bad = |what: &str, detail: String| {
            rep.violation(what, || format!("{}; request {} -> response {} (responder address {:#04x})", detail, hex(req), hex(&r), own), case);
        };
        if len < 13 {
            bad("too-short-for-completion-code", format!("response of {} bytes cannot hold a control header and a completion code", len));
            return;
        }
        if !obs.rb_clean {
            bad("writes-beyond-reported-length", "bytes beyond the reported length changed".into());
        }
        if r[1] != 0x0F {
            bad("framing-command-code", format!("byte 1 {:#04x} != 0x0F", r[1]));
        }
        if r[2] as usize != len - 4 {
            bad("framing-byte-count", format!("byte count {} != reported length {} - 4", r[2], len));
        }
        if r[0] != (req[3] & 0xFE) {
            bad("dest-address", format!("destination address byte {:#04x} != request's source address {:#04x} with the write bit clear", r[0], req[3] & 0xFE));
        }
        if r[3] != ((own << 1) | 1) {
            bad("source-address", format!("source address byte {:#04x} != own address<<1|1 {:#04x}", r[3], (own << 1) | 1));
        }
        if r[4] != 0x01 {
            bad("header-version", format!("byte 4 {:#04x} != 0x01", r[4]));
        }
        if r[5] != req[6] {
            bad("dest-eid", format!("destination EID {:#04x} != request's source EID {:#04x}", r[5], req[6]));
        }
        if r[6] != own {
            bad("source-eid", format!("source EID {:#04x} != own address {:#04x}", r[6], own));
        }
        if r[7] & 0xF0 != 0xC0 {
            bad("flags", format!("byte 7 {:#04x}: SOM/EOM/seq != 1/1/0", r[7]));
        }
        if r[8] != 0x00 {
            bad("message-type", format!("byte 8 {:#04x} is not the control message type", r[8]));
        }
        if r[9] & 0x80 != 0 {
            bad("rq-bit-set", format!("control header byte {:#04x} has the request bit set", r[9]));
        }
        if r[10] != req[10] {
            bad("command-code", format!("command code {:#04x} != request's {:#04x}", r[10], req[10]));
        }
        let (iq, ir) = (req[9] & 0x1F, r[9] & 0x1F);
        if iq != ir {
            if ir == 0 {
                bad("iid-not-echoed", format!("instance ID of the response is 0, the request's is {}", iq));
            } else {
                bad("iid-mismatch", format!("instance ID {} != request's {}", ir, iq));
            }
        }
        if crc8(&r[..len - 1]) != r[len - 1] {
            bad("pec", format!("last byte {:#04x} != CRC-8 {:#04x}", r[len - 1], crc8(&r[..len - 1])));
        }
        if rep.want_sample() {
            rep.sample(|| J::obj(vec![("request", J::s(hex(req))), ("responder", J::s(cfgc.describe())), ("response", J::s(hex(&r)))]));
        }
    });
}

/// response buffer length: usually 64..263, one time in four exactly 64 (the guaranteed minimum)
fn rb_len(seed: u64) -> usize {
    if seed % 4 == 0 {
        64
    } else {
        64 + (seed % 200) as usize
    }
}

/// One request in three carries transport flags (SOM/EOM/sequence/TO/tag), a destination EID, a
/// datagram or reserved bit as another implementation might set them, with a recomputed PEC. The
/// statement does not say such a request must be answered (and that is not judged); when it is, the
/// response has to be the well-formed, correlated packet all the same.
fn make_request(form: u8, rng: &mut Rng, own: u8, src: u8, iid: u8, nsets: usize) -> Vec<u8> {
    let mut req = make_plain_request(form, rng, own, src, iid, nsets);
    if req.len() > 10 && rng.chance(1, 3) {
        match rng.below(4) {
            0 => req[7] = (req[7] & 0xF8) | (rng.byte() & 7),
            1 => req[7] = 0xC0 | (rng.byte() & 0x0F),
            _ => req[7] = rng.byte(),
        }
        if rng.chance(1, 4) {
            req[5] = rng.byte();
        }
        if rng.chance(1, 4) {
            req[9] |= 0x40;
        }
        if rng.chance(1, 6) {
            req[9] |= 0x20;
        }
        crate::refmodel::forge::fix_pec(&mut req);
    }
    req
}

fn make_plain_request(form: u8, rng: &mut Rng, own: u8, src: u8, iid: u8, nsets: usize) -> Vec<u8> {
    match form {
        0 => ctrl_request(own, src, iid, false, 0x01, &[0, rng.range(1, 0xFE) as u8]),
        1 => ctrl_request(own, src, iid, false, 0x01, &[1, rng.range(1, 0xFE) as u8]),
        2 => ctrl_request(own, src, iid, false, 0x01, &[3, rng.range(1, 0xFE) as u8]),
        3 => ctrl_request(own, src, iid, false, 0x02, &[]),
        4 => ctrl_request(own, src, iid, false, 0x03, &[]),
        5 => ctrl_request(own, src, iid, false, 0x04, &[rng.byte()]),
        6 => ctrl_request(own, src, iid, false, 0x05, &[]),
        7 => ctrl_request(own, src, iid, false, 0x06, &[rng.below(nsets as u64) as u8]),
        // not among the answerable forms; judged only if the library answers
        8 => ctrl_request(own, src, iid, false, 0x01, &[if rng.chance(1, 2) { 2 } else { rng.range(4, 255) as u8 }, rng.range(1, 0xFE) as u8]),
        9 => ctrl_request(own, src, iid, false, 0x06, &[rng.range(nsets as u64, 255) as u8]),
        10 => ctrl_request(own, src, iid, false, *rng.pick(&[0x00u8, 0x07, 0x08]), &[rng.byte(), rng.byte(), rng.byte()][..match rng.below(2) { 0 => 1, _ => 3 }]),
        11 if rng.chance(1, 2) => {
            // Resolve UUID naming the responder's own UUID (placeholder 0xEE.., filled in by check()
            // with the UUID the prelude installed), entry handle 0 or random
            let mut d = vec![0xEEu8; 16];
            d.push(if rng.chance(1, 2) { 0 } else { rng.byte() });
            ctrl_request(own, src, iid, false, 0x10, &d)
        }
        _ => {
            let cmd = rng.range(0x09, 0xFF) as u8;
            let k = rng.below(5) as usize;
            let d = rng.bytes(k);
            ctrl_request(own, src, iid, false, cmd, &d)
        }
    }
}

fn run(cfg: &RunCfg) -> Report {
    let mut rep = Report::new();
    let mut rng = cfg.rng("c12");
    let ns = cfg.nshards as u64;
    let sh = cfg.shard as u64;
    let small = cfg.is_small();
    let mut idx = 0u64;
    if !small {
        // all 128 x 128 (requester, responder) address pairs per command form
        let iid_all = cfg.thorough();
        for form in 0..12u8 {
            for own in 0..128u8 {
                for src in 0..128u8 {
                    idx += 1;
                    if idx % ns != sh {
                        continue;
                    }
                    let mut c = CtxCfg::random(&mut rng, true);
                    c.addr = own;
                    let iids: Vec<u8> = if iid_all && form < 8 { (0..32).collect() } else { vec![rng.byte() & 0x1F] };
                    for iid in iids {
                        let req = make_request(form, &mut rng, own, src, iid, c.vendors.len());
                        let pl = if rng.chance(1, 4) { rng.below(12) as usize } else { 0 };
                        check(&c, rng.next(), pl, &req, &mut rep);
                    }
                }
            }
        }
        // every instance ID x every form, many times
        let reps = cfg.pick(1500, 20_000);
        for form in 0..12u8 {
            for iid in 0..32u8 {
                for _ in 0..reps {
                    idx += 1;
                    if idx % ns != sh {
                        continue;
                    }
                    let c = CtxCfg::random(&mut rng, true);
                    let s7 = rng.byte() & 0x7F;
                    let req = make_request(form, &mut rng, c.addr, s7, iid, c.vendors.len());
                    check(&c, rng.next(), rng.below(20) as usize, &req, &mut rep);
                }
            }
        }
    }
    let n = if small { 40 } else { cfg.n(cfg.pick(800_000, 10_000_000)) / ns };
    for _ in 0..n {
        let c = CtxCfg::random(&mut rng, true);
        let form = rng.below(12) as u8;
        // the request's destination need not be the responder (the library does not look at it)
        let dst = if rng.chance(3, 4) { c.addr } else { rng.byte() & 0x7F };
        let (s7, iid) = (rng.byte() & 0x7F, rng.byte() & 0x1F);
        let req = make_request(form, &mut rng, dst, s7, iid, c.vendors.len());
        let pl = if rng.chance(1, 60) { 260 + rng.below(300) as usize } else { rng.below(30) as usize };
        check(&c, rng.next(), pl, &req, &mut rep);
    }
    rep
}

fn finish(rep: &mut Report, cfg: &RunCfg) {
    if cfg.is_small() {
        return;
    }
    floor(rep, cfg, 50_000);
    for c in ["0x01", "0x02", "0x03", "0x04", "0x05", "0x06"] {
        if !rep.classes.contains_key(&format!("cmd-{}:responded", c)) && rep.findings.is_empty() {
            rep.inconclusive.push(format!("no response observed for command {}", c));
        }
    }
}

fn replay(case: &str, rep: &mut Report) -> Result<(), String> {
    let p: Vec<&str> = case.split('|').collect();
    if p.len() != 4 {
        return Err("bad case".into());
    }
    let c = CtxCfg::decode(p[0]).ok_or("bad cfg")?;
    let seed = u64::from_str_radix(p[1], 16).map_err(|_| "bad seed")?;
    let pl: usize = p[2].parse().map_err(|_| "bad prelude length")?;
    let req = unhex(p[3]).ok_or("bad hex")?;
    check(&c, seed, pl, &req, rep);
    Ok(())
}
