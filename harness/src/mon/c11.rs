//! C11 — request processing agrees with decoding and only writes a response for requests.

use super::*;
use crate::classify::*;
use crate::corpus::*;
use crate::json::{hex, unhex, J};
use crate::libapi::*;
use crate::refmodel::refdec::facts;
use crate::rng::{hash_bytes, Rng};
use libmctp::smbus::MCTPSMBusContext;

pub fn mon() -> Mon {
    Mon {
        id: "C11",
        title: "Request processing agrees with decoding and only writes a response for requests",
        run,
        finish,
        replay,
        rule: "Receive corpus (all message types, requests and responses, valid and invalid; same systematic sweeps as C10 plus random mixture) on long-lived contexts in varied states, plus a marathon of 70 000 EID-changing assignments on one context; one input in eight is preceded on the same context by its repaired version (byte count and PEC fixed up) being processed, so that it arrives as an altered retransmission. For each input decode_packet(x) and then process_packet(x, rb) run on the same context, rb being 64..300 bytes of seeded random poison. Oracle: same message type and payload (offset and length inside the input) or same error value; Some(len) only when decoding succeeded on a control message with the request bit set, len <= rb.len(), rb[len..] == poison; otherwise rb == poison entirely. A process_packet panic on an input that decodes fine is a refuting event keyed by the byte-determined input class. Non-trivial = input judged with both results present; distinct = distinct input byte strings.",
        assumptions: &[
            "decode_packet is read-only (checked by the twin context in C13), so calling it first does not disturb process_packet",
            "validly configured contexts and response buffers of at least 64 bytes",
            "when both decode_packet and process_packet panic on an input there is nothing to compare (that panic is C10's)",
        ],
        children: rel_child_quarter,
    }
}

pub fn check(ctx: &MCTPSMBusContext, cfgs: &CtxCfg, x: &[u8], rblen: usize, pseed: u64, rep: &mut Report) {
    rep.eval();
    let case = || format!("{}|{}|{:x}|{}", cfgs.encode(), rblen, pseed, hex(x));
    let poison = Rng::new(pseed).bytes(rblen);
    let mut rb = poison.clone();
    // one input in eight arrives right after its *repaired* version (byte count and PEC fixed up) was
    // processed on the same context: the judged input is then a damaged or altered retransmission of
    // something the endpoint has just answered or acted upon (a response or retry cache would be primed)
    if pseed % 8 == 0 && x.len() >= 10 {
        let mut v = x.to_vec();
        crate::refmodel::forge::fix_count_and_pec(&mut v);
        if v != x {
            let mut rb0 = vec![0x33u8; rblen.max(64)];
            let _ = process(ctx, &v, &mut rb0);
            rep.class("primed:repaired-version-processed-first");
        }
    }
    let d = decode(ctx, x);
    let p = process(ctx, x, &mut rb);
    let f = facts(x);
    let pclass = process_class(x, cfgs.vendors.len());
    rep.class(&format!("in:{}", pclass));
    match (&d, &p) {
        (DecOut::Panic(_), ProcOut::Panic(_)) => {
            rep.class("both-panic:not-judged");
            return;
        }
        (DecOut::Panic(dp), _) => {
            rep.violation(&format!("decode-panics-process-does-not:{}", pclass), || format!("decode_packet panicked ({}) but process_packet returned {} on {}", dp.long(), p.brief(), hex(x)), case);
            return;
        }
        (_, ProcOut::Panic(pp)) => {
            rep.nontrivial(hash_bytes(11, x));
            rep.violation(
                &format!("process-panics:{}:{}", pclass, pp.kind),
                || format!("decode_packet({}) = {} but process_packet panicked: {} (context {})", hex(&x[..x.len().min(40)]), d.brief(), pp.long(), cfgs.describe()),
                case,
            );
            return;
        }
        _ => {}
    }
    rep.nontrivial(hash_bytes(11, x));
    let same = match (&d, &p) {
        (DecOut::Ok { ty, off, len }, ProcOut::Ok { ty: t2, off: o2, len: l2, .. }) => ty == t2 && off == o2 && len == l2,
        (DecOut::Err { mt, ek }, ProcOut::Err { mt: m2, ek: e2 }) => mt == m2 && ek == e2,
        _ => false,
    };
    if !same {
        rep.violation(&format!("result-differs:{}", pclass), || format!("on {}: decode_packet = {}, process_packet = {}", hex(x), d.brief(), p.brief()), case);
    }
    match p.resp_len() {
        Some(len) => {
            rep.class("responded");
            let is_req = d.is_ok() && f.is_ctrl && f.rq;
            if !is_req {
                rep.violation(&format!("response-for-non-request:{}", pclass), || format!("process_packet({}) reported a response of {} bytes for something that is not an accepted control request", hex(x), len), case);
            }
            if len > rb.len() {
                rep.violation("response-length-exceeds-buffer", || format!("Some({}) with a {}-byte buffer", len, rb.len()), case);
            } else if rb[len..] != poison[len..] {
                let i = len + rb[len..].iter().zip(&poison[len..]).position(|(a, b)| a != b).unwrap();
                rep.violation(&format!("writes-beyond-reported-length:{}", pclass), || format!("response buffer byte {} (>= reported length {}) changed while processing {}", i, len, hex(x)), case);
            }
        }
        None => {
            rep.class(if p.is_ok() { "accepted-no-response" } else { "rejected" });
            if rb != poison {
                let i = rb.iter().zip(&poison).position(|(a, b)| a != b).unwrap();
                rep.violation(&format!("buffer-changed-without-response:{}", pclass), || format!("process_packet({}) = {} but response buffer byte {} changed", hex(x), p.brief(), i), case);
            }
        }
    }
    if rep.want_sample() && x.len() > 12 {
        rep.sample(|| J::obj(vec![("input", J::s(hex(x))), ("decode_packet", J::s(d.brief())), ("process_packet", J::s(p.brief()))]));
    }
}

fn run(cfg: &RunCfg) -> Report {
    let mut rep = Report::new();
    let mut crng = cfg.rng("c11-cfg");
    let small = cfg.is_small();
    let plan = RxPlan {
        field_sweep: !small,
        cmd_len_max: if small { 0 } else { cfg.pick(24, 48) as usize },
        truncations: !small,
        lengths: !small,
        random: if small { 300_000 } else { cfg.pick(6_000_000, 120_000_000) },
    };
    let cfgs: Vec<CtxCfg> = (0..3).map(|_| CtxCfg::random_maybe_empty(&mut crng, false, 4)).collect();
    with_ctx(&cfgs[0], |c0| {
        with_ctx(&cfgs[1], |c1| {
            with_ctx(&cfgs[2], |c2| {
                // two of the three contexts get a UUID installed; the corpus below is extended with
                // requests whose data echoes the receiving context's own identity
                let uuids: [[u8; 16]; 3] = {
                    let mut u = [[0u8; 16]; 3];
                    crng.fill(&mut u[1]);
                    u[2].copy_from_slice(&crng.pattern_bytes(16));
                    u
                };
                c1.set_uuid(&uuids[1]);
                c2.set_uuid(&uuids[2]);
                let ctxs: [&MCTPSMBusContext; 3] = [c0, c1, c2];
                {
                    let mut erng = cfg.rng("echo");
                    let echo_n = if small { 20 } else { 4000 };
                    for i in 0..echo_n {
                        let k = i % 3;
                        let own = cfgs[k].addr & 0x7F;
                        let data: Vec<u8> = match erng.below(5) {
                            0 => uuids[k][..15].to_vec(),
                            1 => uuids[k].to_vec(),
                            2 => {
                                let mut d = uuids[k].to_vec();
                                d.push(erng.byte());
                                d
                            }
                            3 => cfgs[k].types.clone(),
                            _ => {
                                if cfgs[k].vendors.is_empty() {
                                    vec![]
                                } else {
                                    crate::refmodel::endpoint::Model::new(&cfgs[k]).vendor_field(erng.below(cfgs[k].vendors.len() as u64) as usize)
                                }
                            }
                        };
                        let cmd = match erng.below(3) {
                            0 => 0x10,
                            1 => erng.range(0x01, 0x14) as u8,
                            _ => erng.byte(),
                        };
                        let rq = erng.chance(3, 4);
                        let x = if rq {
                            crate::refmodel::forge::ctrl_request(own, erng.byte() & 0x7F, erng.byte() & 0x1F, false, cmd, &data)
                        } else {
                            crate::refmodel::forge::ctrl_response(own, erng.byte() & 0x7F, erng.byte() & 0x1F, cmd, 0, &data)
                        };
                        check(ctxs[k], &cfgs[k], &x, 64 + (i % 5) * 40, i as u64, &mut rep);
                    }
                }
                let mut k = 0usize;
                for_each_input(cfg, "c11", &plan, &mut |x, rng| {
                    k = (k + 1) % 3;
                    let rblen = if rng.chance(1, 4) { 64 } else { 64 + rng.below(237) as usize };
                    let ps = rng.next();
                    check(ctxs[k], &cfgs[k], x, rblen, ps, &mut rep);
                });
            })
        })
    });
    // configuration boundaries: every type count x vendor-set count, one request per command
    if !small || cfg.shard == 0 {
        let mut srng = cfg.rng("c11-cfgsweep");
        let mut n = 0u64;
        crate::mon::cfgsweep::for_each(&mut srng, !small, &mut |ctx, c, x| {
            n += 1;
            check(ctx, c, x, 64 + (x.len() % 3) * 90, n, &mut rep);
        });
        rep.class("configuration-boundary-sweep");
    }
    // marathon: 70 000 EID-changing assignments on ONE context, decode vs process judged on every
    // step (state that counts accepted requests in 16 bits wraps here)
    if !small && cfg.shard == 3 % cfg.nshards {
        let c = CtxCfg { addr: 0x21, types: vec![1, 2, 3], vendors: vec![(0, 0x1234, 1), (1, 0xA1B2_C3D4, 2)] };
        with_ctx(&c, |ctx| {
            for i in 0..70_000u32 {
                let x = crate::refmodel::forge::ctrl_request(0x21, (i % 127) as u8, (i & 0x1F) as u8, false, 0x01, &[(i & 1) as u8, 1 + (i % 253) as u8]);
                let before = rep.findings.len();
                check(ctx, &c, &x, 64, i as u64, &mut rep);
                if rep.findings.len() > before {
                    break;
                }
            }
        });
        rep.class("marathon-of-70000-assignments");
    }
    rep
}

fn finish(rep: &mut Report, cfg: &RunCfg) {
    if cfg.is_small() {
        return;
    }
    floor(rep, cfg, 100_000);
    for c in ["responded", "accepted-no-response", "rejected", "in:pci", "in:iana", "in:spdm", "in:secured", "in:ctrl-resp-success", "in:req-answerable", "in:seteid-assign"] {
        if !rep.classes.contains_key(c) {
            rep.inconclusive.push(format!("class '{}' never observed", c));
        }
    }
}

fn replay(case: &str, rep: &mut Report) -> Result<(), String> {
    let parts: Vec<&str> = case.split('|').collect();
    if parts.len() != 4 {
        return Err("bad case".into());
    }
    let cfgs = CtxCfg::decode(parts[0]).ok_or("bad cfg")?;
    let rblen: usize = parts[1].parse().map_err(|_| "bad rblen")?;
    let ps = u64::from_str_radix(parts[2], 16).map_err(|_| "bad seed")?;
    let x = unhex(parts[3]).ok_or("bad hex")?;
    with_ctx(&cfgs, |c| check(c, &cfgs, &x, rblen, ps, rep));
    Ok(())
}
