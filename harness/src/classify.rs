//! Byte-determined input classes. They serve as the static exclusions of C09, the "distinct"
//! accounting and the keys of known findings (keys come from the *input*, never from source lines).

use crate::refmodel::refdec::{facts, Facts};
use crate::refmodel::wire::*;

/// Finest class of an input for the decoder (and everything built on it).
pub fn decode_class(x: &[u8]) -> &'static str {
    let f = facts(x);
    decode_class_f(&f)
}

pub fn decode_class_f(f: &Facts) -> &'static str {
    let n = f.n;
    if n < 9 {
        return "short<9";
    }
    if n == 9 {
        return "short=9";
    }
    if !f.hdr_ok {
        return "hdr-unsupported";
    }
    if f.ty != TY_CONTROL {
        if f.ty == TY_IANA && n == 10 {
            return "iana-n10";
        }
        return match f.ty {
            TY_PCI => "pci",
            TY_IANA => "iana",
            TY_SPDM => "spdm",
            _ => "secured",
        };
    }
    if n <= 11 {
        return "ctrl-short<=11";
    }
    if f.rq {
        if f.cmd >= 0x09 {
            return "ctrl-req-cmd>=0x09";
        }
        return "ctrl-req-cmd<=0x08";
    }
    if n == 12 {
        return "ctrl-resp-short=12";
    }
    if f.cc >= 6 {
        return "ctrl-resp-cc>=6";
    }
    if f.cc != 0 {
        return "ctrl-resp-cc1-5";
    }
    if f.cmd == 0x07 || f.cmd >= 0x0A {
        return "ctrl-resp-cmd-07/>=0x0A";
    }
    "ctrl-resp-success"
}

/// Finest class of an input for process_packet, given the number of configured vendor sets.
/// Only meaningful for inputs the reference decoder accepts; otherwise the decode class.
pub fn process_class(x: &[u8], nsets: usize) -> &'static str {
    let f = facts(x);
    let dc = decode_class_f(&f);
    if dc != "ctrl-req-cmd<=0x08" {
        if (dc == "ctrl-resp-success" || dc == "ctrl-resp-cc1-5") && (256..=259).contains(&f.n) {
            return "ctrl-n256-259";
        }
        return dc;
    }
    let n = f.n;
    let datalen = n - 12;
    if let Some(l) = req_fixed_len(f.cmd) {
        if l != datalen {
            return "ctrl-req-bad-length";
        }
    }
    if (256..=259).contains(&n) {
        return "ctrl-n256-259";
    }
    match f.cmd {
        0x00 => "req-cmd-00",
        0x01 => match x[11] {
            0 | 1 => "seteid-assign",
            2 => "seteid-op2",
            3 => "seteid-discovered",
            _ => "seteid-op>=4",
        },
        0x06 => {
            if nsets == 0 {
                "vendor-selector:no-sets-configured"
            } else if x[11] == 0xFF {
                "vendor-selector-0xFF"
            } else if x[11] as usize >= nsets {
                "vendor-selector>=n"
            } else {
                "vendor-selector<n"
            }
        }
        0x07 | 0x08 => "req-cmd-07/08",
        _ => "req-answerable",
    }
}

pub fn len_bucket(n: usize) -> &'static str {
    match n {
        0 => "n=0",
        1..=2 => "n=1-2",
        3..=8 => "n=3-8",
        9..=12 => "n=9-12",
        13..=31 => "n=13-31",
        32..=127 => "n=32-127",
        128..=255 => "n=128-255",
        256..=259 => "n=256-259",
        _ => "n>=260",
    }
}
