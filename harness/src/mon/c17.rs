//! C17 — the length probe is a function of the first three bytes only.

use super::*;
use crate::json::{hex, unhex, J};
use crate::libapi::*;
use crate::rng::Rng;
use libmctp::smbus::MCTPSMBusContext;

pub fn mon() -> Mon {
    Mon {
        id: "C17",
        title: "The length probe is a function of the first three bytes only",
        run,
        finish,
        replay,
        rule: "All 2^24 three-byte prefixes, bare, on two contexts with different address/configuration/history; a 2^20 (quick) or full 2^24 (thorough) pass with two seeded continuations of random length and content each; inputs of length 0, 1, 2 with every byte value; probes *related* to a packet the context has just decoded or processed (same source and tag, other flags, other byte counts). Oracle: byte[1] == 0x0F ? Ok(byte[2] + 4) : Err((Invalid, _)); inputs shorter than 3 must yield an error value (no panic, no Ok). Distinct non-trivial = distinct (prefix, continuation) inputs judged (hash set, capped).",
        assumptions: &["contexts are validly configured; the probe takes no other input"],
        children: rel_child_quarter,
    }
}

fn want(x: &[u8]) -> Option<Result<usize, ()>> {
    if x.len() < 3 {
        return None;
    }
    Some(if x[1] == 0x0F { Ok(x[2] as usize + 4) } else { Err(()) })
}

pub fn check(ctx: &MCTPSMBusContext, which: &str, x: &[u8], rep: &mut Report) {
    rep.eval();
    let got = get_length(ctx, x);
    let case = || format!("x={}", hex(x));
    match want(x) {
        None => match &got {
            LenOut::Err { .. } => rep.class("short:rejected"),
            LenOut::Ok(n) => {
                let n = *n;
                rep.violation("get_length:len<3:accepted", || format!("get_length on {} byte(s) {} returned Ok({})", x.len(), hex(x), n), case)
            }
            LenOut::Panic(p) => {
                rep.class("short:panic");
                rep.violation("get_length:len<3:panic", || format!("get_length on {} byte(s) [{}] panicked instead of returning an error: {}", x.len(), hex(x), p.long()), case)
            }
        },
        Some(Ok(n)) => {
            if got != LenOut::Ok(n) {
                rep.violation(
                    "get_length:cmd-0x0F:wrong-result",
                    || format!("get_length({}..) on context {} = {}, expected Ok({})", hex(&x[..3]), which, got.brief(), n),
                    case,
                );
            }
        }
        Some(Err(())) => match &got {
            LenOut::Err { mt: 0xFF, .. } => {}
            _ => rep.violation(
                "get_length:other-cmd:wrong-result",
                || format!("get_length({}..) on context {} = {}, expected Err((Invalid, _))", hex(&x[..3]), which, got.brief()),
                case,
            ),
        },
    }
}

fn run(cfg: &RunCfg) -> Report {
    let mut rep = Report::new();
    let cfg_a = CtxCfg::simple(0x23);
    let cfg_b = CtxCfg { addr: 0xE7, types: (1..=30).collect(), vendors: (0..16).map(|i| ((i & 1) as u8, 0xA000_0000 + i as u32, i as u16)).collect() };
    let ns = cfg.nshards as u32;
    let sh = cfg.shard as u32;
    with_ctx(&cfg_a, |a| {
        with_ctx(&cfg_b, |b| {
            // give b a history
            let mut rb = [0u8; 64];
            let p = crate::refmodel::forge::ctrl_request(0x67, 0x11, 3, false, 0x01, &[0x00, 0x42]);
            let _ = process(b, &p, &mut rb);
            let mut rng = cfg.rng("c17");
            // lengths 0..2
            if sh == 0 {
                check(a, "A", &[], &mut rep);
                check(b, "B", &[], &mut rep);
                for v in 0..=255u8 {
                    check(a, "A", &[v], &mut rep);
                    check(b, "B", &[v], &mut rep);
                    for w in [0x00u8, 0x0F, 0xFF, v] {
                        check(a, "A", &[v, w], &mut rep);
                        check(a, "A", &[w, v], &mut rep);
                        check(b, "B", &[w, v], &mut rep);
                    }
                }
            }
            let total: u32 = if cfg.is_small() { 1 << 10 } else { 1 << 24 };
            let per = total / ns;
            let lo = per * sh;
            let hi = if sh == ns - 1 { total } else { lo + per };
            let cont_every: u32 = if cfg.thorough() || cfg.is_small() { 1 } else { 4 };
            let mut bare = 0u64;
            let mut buf = Vec::with_capacity(700);
            for v in lo..hi {
                // small runs stride through the space so that byte 1 == 0x0F is still met
                let v = if cfg.is_small() { v.wrapping_mul(0x0001_0F01) & 0xFF_FFFF } else { v };
                let x = [(v >> 16) as u8, (v >> 8) as u8, v as u8];
                check(a, "A", &x, &mut rep);
                check(b, "B", &x, &mut rep);
                bare += 1;
                if v & 0xFFF == 0 {
                    rep.nontrivial(v as u64);
                }
                if v % cont_every == (v >> 8) % cont_every {
                    for k in 0..2 {
                        buf.clear();
                        buf.extend_from_slice(&x);
                        let extra = match rng.below(4) {
                            0 => 1 + rng.below(4) as usize,
                            1 => rng.below(600) as usize,
                            _ => rng.below(40) as usize,
                        };
                        for _ in 0..extra {
                            buf.push(rng.byte());
                        }
                        check(if k == 0 { a } else { b }, if k == 0 { "A" } else { "B" }, &buf, &mut rep);
                        rep.nontrivial(crate::rng::hash_bytes(17, &buf));
                    }
                }
            }
            // probe after decode: the context first decodes / processes a packet with arbitrary
            // transport flags, then probes inputs *related* to it (same source, tag, flags variants,
            // other byte counts) - the answer must still be the function of the first three bytes
            let rounds = if cfg.is_small() { 20 } else { cfg.pick(40_000, 1_000_000) / ns as u64 };
            let mut rb = [0u8; 64];
            for r in 0..rounds {
                let mut p = crate::corpus::gen_valid(&mut rng);
                if p.len() < 10 {
                    continue;
                }
                p[7] = match rng.below(4) {
                    0 => 0x80 | (rng.byte() & 0x3F), // SOM=1, EOM=0
                    1 => rng.byte() & 0x3F,          // middle packet
                    _ => rng.byte(),
                };
                crate::refmodel::forge::fix_pec(&mut p);
                let ctx = if r % 2 == 0 { &*a } else { &*b };
                let which = if r % 2 == 0 { "A" } else { "B" };
                if rng.chance(1, 2) {
                    let _ = decode(ctx, &p);
                } else {
                    let _ = process(ctx, &p, &mut rb);
                }
                for _ in 0..4 {
                    let mut q = p.clone();
                    match rng.below(5) {
                        0 => q[7] = rng.byte() & 0x3F,
                        1 => q[7] = (p[7] & 0x0F) | (rng.byte() & 0x30),
                        2 => q[2] = rng.byte(),
                        3 => {
                            q[2] = rng.byte();
                            q[7] = (p[7] & 0x0F) | (rng.byte() & 0x30);
                        }
                        _ => {
                            q[1] = rng.byte();
                        }
                    }
                    if rng.chance(1, 3) {
                        q.truncate(3 + rng.below(q.len() as u64 - 2) as usize);
                    }
                    check(ctx, which, &q, &mut rep);
                    rep.nontrivial(crate::rng::hash_bytes(0x17D, &q));
                }
                rep.class("probe-after-decode");
            }
            // re-framed packets: a valid packet with its first byte removed (starts with 0x0F ...), with
            // an address byte prepended, and prefixes of those
            for base in crate::corpus::base_packets(cfg.seed).iter().take(if cfg.is_small() { 4 } else { 200 }) {
                if (base[0] as u32) % ns != sh {
                    continue;
                }
                let mut variants: Vec<Vec<u8>> = vec![base[1..].to_vec()];
                let mut pre = vec![base[0]];
                pre.extend_from_slice(base);
                variants.push(pre);
                // stripped, and addressed as if from/to the probing contexts
                for eid in [0x00u8, 0x23, 0x42, 0xE7] {
                    let mut t = base[1..].to_vec();
                    if t.len() > 5 {
                        t[2] |= 1;
                        t[3] = 0x01;
                        t[4] = eid;
                        variants.push(t);
                    }
                }
                for v in variants {
                    for k in [v.len(), v.len().min(7), v.len().min(9), 3.min(v.len())] {
                        check(a, "A", &v[..k], &mut rep);
                        check(b, "B", &v[..k], &mut rep);
                    }
                }
                rep.class("re-framed-packets");
            }
            rep.class_n("prefixes-bare", bare);
            let _ = &mut rng;
        })
    });
    let mut r = Rng::new(cfg.seed);
    if cfg.shard == 0 {
        for _ in 0..3 {
            let x = [r.byte(), if r.chance(1, 2) { 0x0F } else { r.byte() }, r.byte(), r.byte()];
            with_ctx(&cfg_a, |a| {
                let g = get_length(a, &x);
                rep.sample(|| J::obj(vec![("input", J::s(hex(&x))), ("get_length", J::s(g.brief()))]));
            });
        }
    }
    rep
}

fn finish(rep: &mut Report, cfg: &RunCfg) {
    if cfg.is_small() {
        return;
    }
    if rep.classes.get("prefixes-bare").copied().unwrap_or(0) == 1 << 24 {
        rep.exhaustive_spaces.push("all 2^24 three-byte prefixes (bare) on two contexts".into());
    } else {
        rep.inconclusive.push("prefix sweep incomplete".into());
    }
    floor(rep, cfg, 10_000);
}

fn replay(case: &str, rep: &mut Report) -> Result<(), String> {
    let x = unhex(case.strip_prefix("x=").ok_or("bad case")?).ok_or("bad hex")?;
    with_ctx(&CtxCfg::simple(0x23), |a| check(a, "A", &x, rep));
    Ok(())
}
